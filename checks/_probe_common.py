"""Shared enumeration for the scale-probe checks (C01, C02, C03, C05)."""

from __future__ import annotations

from typing import Any, Dict, List

from models.ops import OPS, lattice

DEV = {"quick": 2, "thorough": 4}


def lattice_cases(tier: str, seed: int, d: int = 0, **kw: Any) -> List[Dict[str, Any]]:
    out = []
    d = d or DEV[tier]
    for name, op in OPS.items():
        for cfg in lattice(op, d, **kw):
            out.append({"kind": "probe", "op": name, "cfg": cfg, "seed": seed})
    return out


def cfg_key(cfg: Dict[str, Any], keys: List[str]) -> str:
    return ",".join(f"{k}={cfg[k]}" for k in keys if k in cfg)


def deviations(op_name: str, cfg: Dict[str, Any]) -> List[str]:
    op = OPS[op_name]
    return [k for k, v in op.coords.items() if cfg.get(k) != v[0]]
