"""C01 — forward = PyTorch x one data-independent positive scalar.

Explorer kind L (deviation-bounded walk of every function's configuration lattice) plus a
small E-like part: on tiny shapes ALL assignments of values from a 5-letter alphabet are
executed, so data-independence is exhaustive there.  Oracle: PyTorch reference op on
identical tensors; least-squares scalar fit in float64.
"""

from __future__ import annotations

import itertools
from typing import Any, Dict, List

from checks._probe_common import DEV, deviations, lattice_cases

PROPERTY = "C01"
RULE = (
    "case = (function, configuration) within d deviations of the default configuration, or "
    "(function, tiny configuration, ALL value assignments), or (function, unsupported argument); "
    "non-trivial = reference output not identically zero and fitted scalar or configuration "
    "differs from the default's"
)
BOUND = {
    "quick": "16 functions, all configurations with <=2 deviating coordinates (shape, dtype, "
    "hyperparameters, constraint); tiny shapes x all assignments over {-2,-0.5,0,0.5,3}; all "
    "unsupported/unknown arguments",
    "thorough": "<=4 deviating coordinates; same exhaustive value part",
}
EXHAUSTIVE = {"quick": True, "thorough": True}
ASSUMPTIONS = [
    "tensor values: two independent seeded draws per configuration (A1) except the tiny-shape "
    "part where all assignments over a 5-value alphabet are run",
    "low-precision dtypes compared with dtype-sized tolerances (bf16 4e-2, f16 6e-3, f32 2e-4)",
    "rms_norm computes its statistic in float32 by design: float64 inputs compared at 1e-6",
]
ALPHA = [-2.0, -0.5, 0.0, 0.5, 3.0]

TINY: Dict[str, List[Dict[str, Any]]] = {
    "gelu": [{"batch": [], "n": 3}, {"batch": [], "n": 3, "mult": 0.25, "approximate": "tanh"}],
    "silu": [{"batch": [], "n": 3}, {"batch": [], "n": 3, "mult": 3.0, "constraint": None}],
    "silu_glu": [{"batch": [], "n": 2}],
    "softmax": [{"batch": [], "n": 3}, {"batch": [2], "n": 2, "dim": 0}],
    "dropout": [{"batch": [], "n": 3, "training": False}],
    "matmul": [{"batch": [], "m": 1, "k": 2, "n": 1}],
    "linear": [{"batch": [], "fin": 2, "fout": 1, "bias": True}],
    "linear_readout": [{"batch": [], "fin": 2, "fout": 1, "bias": True}],
    "conv1d": [{"batch": [], "cin": 1, "cout": 1, "k": 2, "L": 3}],
    "layer_norm": [{"batch": [], "n": 3, "weight": False, "bias": False}],
    "rms_norm": [{"batch": [], "n": 3, "weight": False}],
    "add": [{"batch": [], "n": 2, "pattern": "equal"}],
    "embedding": [{"batch": [], "n": 2, "V": 2, "D": 2}],
    "scaled_dot_product_attention": [{"batch": [], "L": 1, "S": 2, "d": 1}],
    "cross_entropy": [{"N": None, "V": 3}, {"N": 2, "V": 2}, {"N": 2, "V": 2, "ignore": "all_but_one"}],
    "mse_loss": [{"batch": [], "n": 2}],
}
EXTRA_REJECT = {
    "softmax": [{"_stacklevel": 5}],
    "scaled_dot_product_attention": [{"scale": 0.3}, {"enable_gqa": True}],
    "matmul": [{"out": "OUT"}],
    "mse_loss": [{"weight": "ONES"}, {"reduction": "none"}, {"reduction": "batchmean"}],
    "cross_entropy": [{"reduction": "none"}, {"reduction": "batchmean"}],
    "gelu": [{"inplace": True}],
    "linear": [{"out": "OUT"}],
}


# unsupported arguments given POSITIONALLY (the guard must not only look at keywords)
POSITIONAL_REJECT = {
    "dropout": lambda U, x: U.dropout(x, 0.5, True, True),
    "silu": lambda U, x: U.silu(x, 1.0, "to_output_scale", True),
    "add": lambda U, x: U.add(x, x, "to_output_scale", 2),
    "embedding": lambda U, x: U.embedding(x.long().abs() % 3, x.new_ones(3, 2), None, None, 2.0, True),
    "mse_loss": lambda U, x: U.mse_loss(x, x, False),
    "cross_entropy": lambda U, x: U.cross_entropy(x.reshape(1, -1), x.new_zeros(1).long(), x.new_ones(x.numel())),
}


def cases(tier: str, seed: int) -> List[Dict[str, Any]]:
    from models.ops import OPS, default_cfg

    out = lattice_cases(tier, seed)
    # ambient environment coordinates (default configuration and one dtype deviation per function)
    for name, op in OPS.items():
        for env in ("no_grad", "inference_mode", "default_dtype=float64", "default_dtype=bfloat16", "default_dtype=float16", "noncontiguous", "expanded_batch"):
            for dt in ("float64", "float32"):
                out.append({"kind": "probe", "op": name, "cfg": dict(default_cfg(op), dtype=dt), "seed": seed, "env": env})
    # call-form coordinate: the same configuration with every argument positional / every argument by
    # keyword / integral floats as ints and lists as tuples - over all single deviations of the lattice
    from checks._probe_common import lattice_cases as _lc

    for c_ in _lc(tier, seed, d=1, fixed={"dtype": "float64"}):
        for form in ("positional", "keyword", "numforms"):
            out.append(dict(c_, env=f"argform={form}"))
    # value magnitude (all finite values): scale-free ops in low precision with large / tiny inputs
    for name in ("rms_norm", "layer_norm", "softmax"):
        for dt in ("float16", "bfloat16", "float32"):
            for mag in ("magnitude=300", "magnitude=0.0001", "magnitude=30"):
                for extra in ({}, {"eps": 1e-2} if name != "softmax" else {"mult": 0.25}):
                    out.append({"kind": "probe", "op": name, "cfg": dict(default_cfg(OPS[name]), dtype=dt, **extra), "seed": seed, "env": mag})
    for name, cfgs in TINY.items():
        for o in cfgs:
            cfg = dict(default_cfg(OPS[name]), **o)
            out.append({"kind": "values", "op": name, "cfg": cfg})
    for name, op in OPS.items():
        for kw in list(op.unsupported) + EXTRA_REJECT.get(name, []):
            out.append({"kind": "reject", "op": name, "kw": kw})
    for name in POSITIONAL_REJECT:
        out.append({"kind": "reject_positional", "op": name})
    return out


def run_case(case: Dict[str, Any]) -> Dict[str, Any]:
    import torch
    from mc.core import exception_violation
    from models.ops import OPS, default_cfg
    from models.probe import TOL, fit, probe

    op = OPS[case["op"]]
    viol: List[Dict[str, str]] = []

    if case["kind"] == "reject":
        cfg = default_cfg(op)
        t = op.make(cfg, torch.Generator().manual_seed(0))
        kw = {}
        for k, v in case["kw"].items():
            if v == "TENSOR":
                v = torch.ones(cfg["V"], dtype=torch.float64)
            elif v == "OUT":
                v = torch.empty_like(op.ref(t, cfg))
            elif v == "ONES":
                v = torch.ones_like(t["input"])
            if k in op.coords:  # a value of a modelled hyperparameter that the library does not implement
                cfg = dict(cfg, **{k: v})
            else:
                kw[k] = v
        try:
            y = op.unit(t, cfg, **kw)
            viol.append({"key": f"{op.name}|unsupported_arg_accepted|{','.join(case['kw'])}",
                         "msg": f"{op.name}(**{case['kw']}) returned {tuple(y.shape)} instead of raising"})
        except Exception:  # noqa - any error is a rejection
            pass
        return {"violations": viol, "outcome": "rejected" if not viol else "accepted"}

    if case["kind"] == "reject_positional":
        import unit_scaling.functional as U

        x = torch.randn(6, dtype=torch.float64)
        try:
            y = POSITIONAL_REJECT[case["op"]](U, x)
            viol.append({"key": f"{op.name}|unsupported_positional_arg_accepted", "msg": f"returned {tuple(y.shape)}"})
        except Exception:  # noqa
            pass
        return {"violations": viol, "outcome": "rejected" if not viol else "accepted"}

    if case["kind"] == "values":
        cfg = case["cfg"]
        g = torch.Generator().manual_seed(3)
        t0 = op.make(cfg, g)
        fl = [k for k, v in t0.items() if v.is_floating_point() and k != "attn_mask"
              and not (op.name == "cross_entropy" and k == "target")]
        total = sum(t0[k].numel() for k in fl)
        alpha = ALPHA if 5**total <= 20000 else [-2.0, 0.5, 3.0]
        s_first = None
        n = 0
        ident = f"{op.name}|values"
        for assign in itertools.product(alpha, repeat=total):
            it = iter(assign)
            t = dict(t0)
            for k in fl:
                t[k] = torch.tensor([next(it) for _ in range(t0[k].numel())], dtype=torch.float64).reshape(t0[k].shape)
            try:
                yr = op.ref(t, cfg)
            except Exception:  # noqa
                continue
            try:
                yu = op.unit(t, cfg)
            except Exception as e:  # noqa
                viol.append(exception_violation(e, ident))
                break
            n += 1
            if not torch.isfinite(yr).all():
                continue
            s, res = fit(yu, yr)
            if s is None:
                if float(yu.abs().max()) > 1e-300 and float(yr.abs().max()) == 0:
                    viol.append({"key": ident + "|nonzero_where_reference_zero", "msg": f"cfg={cfg} values={assign}"})
                    break
                continue
            tol = 1e-6 if op.name == "rms_norm" else 1e-10
            if res > tol:
                viol.append({"key": ident + "|not_proportional", "msg": f"cfg={cfg} values={assign}: residual {res:.2e}"})
                break
            if s_first is None:
                s_first = s
            elif abs(s - s_first) > max(tol, 1e-11) * abs(s_first):
                viol.append({"key": ident + "|scalar_depends_on_values", "msg": f"cfg={cfg} values={assign}: s={s!r} vs {s_first!r}"})
                break
            if op.exact_one and abs(s - 1) > tol:
                viol.append({"key": ident + "|scalar_not_one", "msg": f"cfg={cfg} values={assign}: s={s!r}"})
                break
        return {"violations": viol, "steps": n, "n_states": n, "outcome": "values"}

    # ---------------------------------------------------------------- lattice probe
    cfg = case["cfg"]
    dt = cfg["dtype"]
    tol = TOL[dt]
    if op.name == "rms_norm" and dt == "float64":
        tol = 2e-5
    dev = deviations(op.name, cfg)
    ident = f"{op.name}|dev={'+'.join(dev) or 'none'}"
    if case.get("env"):
        from models.probe import probe_env

        ident += "|env=" + case["env"]
        r = probe_env(op, cfg, case["seed"], case["env"])
    else:
        r = probe(op, cfg, case["seed"])
    if "skipped" in r:
        return {"skipped": r["skipped"]}
    if "unit_exc" in r:
        return {"violations": [exception_violation(r["unit_exc"], ident)], "outcome": "raises"}
    ss = []
    if r["draws"] and r["draws"][0]["shape_ok"]:
        odt = r["draws"][0]["shapes"][1].replace("torch.", "")
        tol = max(tol, TOL.get(odt, tol))  # e.g. softmax(dtype=float32) on float64 input
    for i, d in enumerate(r["draws"]):
        if not d["shape_ok"] or not d["dtype_ok"]:
            viol.append({"key": ident + "|shape_or_dtype", "msg": f"cfg={cfg}: unit {d['shapes'][:2]} vs torch {d['shapes'][2:]}"})
            break
        if d["modified"]:
            viol.append({"key": ident + "|input_modified", "msg": f"cfg={cfg}: {d['modified']}"})
        if not d["repeat_equal"]:
            viol.append({"key": ident + "|repeat_call_differs", "msg": f"cfg={cfg}"})
        if d["s"] is None or not d["finite"]:
            continue
        if d["res"] > tol:
            viol.append({"key": ident + "|not_proportional", "msg": f"cfg={cfg} draw={i}: residual {d['res']:.3e} (s={d['s']!r})"})
        elif d["s"] <= 0:
            viol.append({"key": ident + "|scalar_not_positive", "msg": f"cfg={cfg}: s={d['s']!r}"})
        ss.append(d["s"])
    if len(ss) == 2 and not viol:
        if abs(ss[0] - ss[1]) > max(tol, 1e-11) * abs(ss[0]):
            viol.append({"key": ident + "|scalar_differs_between_draws", "msg": f"cfg={cfg}: s={ss[0]!r} vs {ss[1]!r}"})
    if ss and op.exact_one and not viol and abs(ss[0] - 1) > max(tol, 1e-12):
        viol.append({"key": ident + "|scalar_not_one", "msg": f"cfg={cfg}: s={ss[0]!r}"})
    steps = 2
    if dt != "float64" and ss and not viol:
        r64 = probe(op, dict(cfg, dtype="float64"), case["seed"], draws=1, gdraws=0)
        steps += 1
        if "draws" in r64 and r64["draws"] and r64["draws"][0].get("s") is not None:
            s64 = r64["draws"][0]["s"]
            if abs(ss[0] - s64) > 3 * tol * abs(s64):
                viol.append({"key": ident + "|scalar_differs_between_dtypes", "msg": f"cfg={cfg}: s({dt})={ss[0]!r} s(float64)={s64!r}"})
    outcome = f"{op.name}:s={'%.4g' % ss[0] if ss else 'n/a'}"
    return {"violations": viol[:4], "steps": steps, "nontrivial": bool(ss), "outcome": op.name if viol else outcome}
