"""C02 — gradients = PyTorch gradients x per-input data-independent positive scalars.

Explorer kind L over the same lattices as C01; for each configuration two value draws x
two upstream-gradient draws.  Second part: the two scaling primitives over a factor
alphabet x shapes x dtypes, bit-exact on the untouched pass.
"""

from __future__ import annotations

import itertools
from typing import Any, Dict, List

from checks._probe_common import deviations, lattice_cases

PROPERTY = "C02"
FACTORS = [1.0, -1e3, -1.0, -0.5, 0.0, 0.5, 3.0, 1e3, 1e-3, 7]
PSHAPES = [[], [1], [5], [2, 3], [1, 2, 3], [0]]
RULE = (
    "case = (function, configuration) within d deviations, all differentiable inputs, 2 value "
    "draws x 2 upstream-gradient draws; or (primitive, factor, shape, dtype); non-trivial = some "
    "reference gradient is non-zero"
)
BOUND = {
    "quick": "16 functions, <=2 deviating coordinates; scale_fwd/scale_bwd: 10 factors x 6 shapes x 4 dtypes",
    "thorough": "<=4 deviating coordinates",
}
EXHAUSTIVE = {"quick": True, "thorough": True}
ASSUMPTIONS = [
    "tensor values and upstream gradients: two independent seeded draws each (A1)",
    "mean-reduced losses are compared with the gradient of the SUM-reduced PyTorch loss, as the statement says",
    "low-precision dtypes compared with dtype-sized tolerances",
]


def cases(tier: str, seed: int) -> List[Dict[str, Any]]:
    out = lattice_cases(tier, seed)
    from models.ops import OPS as _OPS, default_cfg as _dc

    for name, op in _OPS.items():
        t_ = op.make(_dc(op), __import__("torch").Generator().manual_seed(0))
        fl = [k for k, v in t_.items() if v.is_floating_point() and k != "attn_mask"]
        if name in ("linear", "linear_readout", "conv1d", "layer_norm"):
            t_ = op.make(dict(_dc(op), bias=True), __import__("torch").Generator().manual_seed(0))
            fl = [k for k, v in t_.items() if v.is_floating_point()]
        if len(fl) >= 2:
            for fz in fl:
                cfgf = dict(_dc(op), dtype="float64")
                if "bias" in fl:
                    cfgf["bias"] = True
                out.append({"kind": "probe", "op": name, "cfg": cfgf, "seed": seed, "env": f"freeze={fz}"})
        for env in ("default_dtype=float64", "default_dtype=bfloat16", "default_dtype=float16", "noncontiguous", "expanded_batch"):
            for dt in ("float64", "float32"):
                out.append({"kind": "probe", "op": name, "cfg": dict(_dc(op), dtype=dt), "seed": seed, "env": env})
    # call-form coordinate: the same configuration with every argument positional / every argument by
    # keyword / integral floats as ints and lists as tuples - over all single deviations of the lattice
    from checks._probe_common import lattice_cases as _lc

    for c_ in _lc(tier, seed, d=1, fixed={"dtype": "float64"}):
        for form in ("positional", "keyword", "numforms"):
            out.append(dict(c_, env=f"argform={form}"))
    # call HISTORIES: the same op / factor used with several dtypes in sequence inside one process
    # ("never varies ... between repeated calls"): low precision first, then high precision
    from models.ops import OPS

    for name in OPS:
        for seq in (["bfloat16", "float64"], ["float16", "float32", "float64"], ["float64", "bfloat16", "float64"]):
            out.append({"kind": "dtype_history", "op": name, "seq": seq, "seed": seed, "fresh": True})
    for f in (0.1, 3.0, -0.3):
        for prim in ("scale_fwd", "scale_bwd"):
            out.append({"kind": "prim_history", "prim": prim, "factor": f, "seq": ["float16", "bfloat16", "float32", "float64"], "fresh": True})
    # hyperparameter HISTORIES: the same op and shapes called with one hyperparameter changed between calls (train -> eval
    # switches dropout_p, a sweep changes mult, ...): the scalars of the LAST call equal those the same call gives as the
    # first call of a fresh interpreter
    for opn, key, vals in (("scaled_dot_product_attention", "dropout_p", [0.5, 0.0]), ("scaled_dot_product_attention", "dropout_p", [0.0, 0.5]),
                           ("scaled_dot_product_attention", "mult", [0.25, 1.0]), ("scaled_dot_product_attention", "is_causal", [True, False]),
                           ("softmax", "mult", [4.0, 1.0]), ("gelu", "mult", [0.5, 1.0]), ("dropout", "p", [0.5, 0.1]),
                           ("residual_split", "tau", [0.3, 1.0]), ("residual_add", "tau", [0.3, 1.0])):
        if opn in OPS:
            out.append({"kind": "hyper_history", "op": opn, "key": key, "vals": vals, "seed": seed, "fresh": True})
    # "tensors of any shape / dtype": integer and bool tensors take PyTorch's type promotion (0.5 * arange is float)
    for f in FACTORS:
        for dt in ("int64", "int32", "bool"):
            out.append({"kind": "prim_int", "factor": f, "dtype": dt})
    # requires_grad pattern under NAMED constraints (the scalar of one operand never depends on another's flag)
    for name, op in _OPS.items():
        if "constraint" not in op.coords:
            continue
        for con in [c for c in op.coords["constraint"] if c not in (None, "", op.coords["constraint"][0])]:
            cfgc = dict(_dc(op), dtype="float64", constraint=con)
            if "bias" in op.coords:
                cfgc["bias"] = True
            try:
                t_ = op.make(cfgc, __import__("torch").Generator().manual_seed(0))
            except (RuntimeError, ValueError, KeyError, IndexError):
                continue
            fl = [k for k, v in t_.items() if v.is_floating_point() and k != "attn_mask"]
            if len(fl) >= 2:
                for fz in fl:
                    out.append({"kind": "probe", "op": name, "cfg": cfgc, "seed": seed, "env": f"freeze={fz}"})
    for prim, f, sh, dt in itertools.product(["scale_fwd", "scale_bwd"], FACTORS, PSHAPES,
                                             ["float64", "float32", "bfloat16", "float16"]):
        out.append({"kind": "prim", "prim": prim, "factor": f, "shape": sh, "dtype": dt, "seed": seed})
    return out


def run_case(case: Dict[str, Any]) -> Dict[str, Any]:
    import torch
    from mc.core import exception_violation
    from models.ops import OPS, tdtype
    from models.probe import TOL, probe

    viol: List[Dict[str, str]] = []
    if case["kind"] == "dtype_history":
        from models.ops import default_cfg

        op = OPS[case["op"]]
        base = default_cfg(op)
        sub = []
        for dt in case["seq"]:
            r = run_case({"kind": "probe", "op": case["op"], "cfg": dict(base, dtype=dt), "seed": case["seed"]})
            if r.get("skipped"):
                continue
            for v in r["violations"]:
                sub.append({"key": v["key"] + f"|after_dtypes={'>'.join(case['seq'][:case['seq'].index(dt)]) or 'none'}", "msg": v["msg"]})
        return {"violations": sub[:4], "steps": len(case["seq"]), "outcome": "dtype_history", "nontrivial": True}
    if case["kind"] == "hyper_history":
        import json
        import os
        import subprocess
        import sys

        from models.ops import default_cfg

        op = OPS[case["op"]]
        base = dict(default_cfg(op), dtype="float64")
        if case["key"] not in base:
            return {"skipped": f"{case['op']} has no hyperparameter {case['key']}"}

        def scal(cfg: Dict[str, Any]) -> Any:
            r = probe(op, cfg, case["seed"])
            if "draws" not in r:
                return None
            return [[d.get("s")] + [[g_.get("c") for g_ in d.get("grads", {}).get(k, [])] for k in sorted(d.get("grads", {}))] for d in r["draws"]]

        last = None
        for v_ in case["vals"]:
            last = scal(dict(base, **{case["key"]: v_}))
        if last is None:
            return {"skipped": "probe not applicable"}
        if os.environ.get("VERIF_C02_CHILD"):
            return {"violations": [], "scalars": last}
        code = ("import json,sys; from checks import c02; r = c02.run_case(json.loads(sys.argv[1])); print('SCALARS=' + json.dumps(r.get('scalars')))")
        child = dict(case, vals=case["vals"][-1:])
        pr = subprocess.run([sys.executable, "-c", code, json.dumps(child)], capture_output=True, text=True, timeout=600,
                            env=dict(os.environ, VERIF_C02_CHILD="1"))
        line = [ln for ln in pr.stdout.splitlines() if ln.startswith("SCALARS=")]
        if pr.returncode != 0 or not line:
            raise RuntimeError("reference interpreter failed: " + pr.stderr[-800:])
        ref = json.loads(line[0][len("SCALARS="):])

        def flat(a: Any) -> List[Any]:
            return [y for x in a for y in flat(x)] if isinstance(a, list) else [a]

        fa, fb = flat(last), flat(ref)
        bad = len(fa) != len(fb) or any((a is None) != (b is None) or (a is not None and abs(a - b) > 1e-9 * max(abs(a), abs(b))) for a, b in zip(fa, fb))
        sub = []
        if bad:
            sub.append({"key": f"{case['op']}|scalar_depends_on_call_history|{case['key']}",
                        "msg": f"{case['key']}: {case['vals']} -> scalars of the last call {fa} vs the same call first in a fresh interpreter {fb}"})
        return {"violations": sub, "steps": len(case["vals"]) + 1, "outcome": "hyper_history", "nontrivial": any(x is not None for x in fa)}
    if case["kind"] == "prim_history":
        sub = []
        for i, dt in enumerate(case["seq"]):
            r = run_case({"kind": "prim", "prim": case["prim"], "factor": case["factor"], "shape": [5], "dtype": dt, "seed": 0})
            for v in r["violations"]:
                sub.append({"key": v["key"] + f"|after_dtypes={'>'.join(case['seq'][:i]) or 'none'}", "msg": v["msg"]})
        return {"violations": sub[:4], "steps": len(case["seq"]), "outcome": "prim_history", "nontrivial": True}
    if case["kind"] == "prim_int":
        from unit_scaling import scale as S

        f = case["factor"]
        x = torch.arange(7, dtype=torch.int64).to(getattr(torch, case["dtype"]))
        ident = f"scale_fwd|dtype={case['dtype']}|factor={'zero' if f == 0 else ('neg' if f < 0 else 'pos')}"
        try:
            y = S.scale_fwd(x, f)
        except Exception as e:  # noqa
            return {"violations": [exception_violation(e, ident)], "outcome": "raises"}
        want = x * f  # PyTorch's promotion of (integer tensor) x (python float)
        if y.dtype != want.dtype or not torch.equal(y, want):
            viol.append({"key": ident + "|forward_value", "msg": f"scale_fwd({x.tolist()}, {f}) = {y.tolist()} ({y.dtype}), expected {want.tolist()} ({want.dtype})"})
        return {"violations": viol, "nontrivial": True, "outcome": "prim_int"}
    if case["kind"] == "prim":
        from unit_scaling import scale as S

        f, sh, dt = case["factor"], case["shape"], tdtype(case["dtype"])
        g = torch.Generator().manual_seed(11 + len(sh))
        x0 = torch.randn(sh, dtype=torch.float64, generator=g).to(dt)
        up = torch.randn(sh, dtype=torch.float64, generator=g).to(dt)
        x = x0.clone().requires_grad_(True)
        ident = f"{case['prim']}|factor={'zero' if f == 0 else ('neg' if f < 0 else 'pos')}"
        try:
            y = getattr(S, case["prim"])(x, f)
            (gx,) = torch.autograd.grad(y, x, up)
        except Exception as e:  # noqa
            return {"violations": [exception_violation(e, ident)], "outcome": "raises"}
        if y.dtype != dt or y.shape != x.shape or gx.dtype != dt:
            viol.append({"key": ident + "|shape_or_dtype", "msg": f"{case}: y {y.dtype} {tuple(y.shape)} grad {gx.dtype}"})
        else:
            want_y = (x0 * f) if case["prim"] == "scale_fwd" else x0
            want_g = up if case["prim"] == "scale_fwd" else (up * torch.tensor(f, dtype=dt))
            exact_y = case["prim"] == "scale_bwd"
            if exact_y and not torch.equal(y.detach(), want_y):
                viol.append({"key": ident + "|forward_touched", "msg": f"{case}"})
            if not exact_y and not torch.allclose(y.detach().double(), x0.double() * f, rtol=4 * TOL[case["dtype"]], atol=0):
                viol.append({"key": ident + "|forward_value", "msg": f"{case}"})
            if case["prim"] == "scale_fwd" and not torch.equal(gx, want_g):
                viol.append({"key": ident + "|backward_touched", "msg": f"{case}: grad != upstream"})
            if case["prim"] == "scale_bwd" and not torch.allclose(gx.double(), up.double() * f, rtol=4 * TOL[case["dtype"]], atol=0):
                viol.append({"key": ident + "|backward_value", "msg": f"{case}"})
        if x._version != 0 or not torch.equal(x.detach(), x0):
            viol.append({"key": ident + "|input_modified", "msg": f"{case}"})
        return {"violations": viol, "nontrivial": f not in (1.0,) and x0.numel() > 0, "outcome": case["prim"]}

    op = OPS[case["op"]]
    cfg = case["cfg"]
    dt = cfg["dtype"]
    tol = TOL[dt]
    if op.name == "rms_norm" and dt == "float64":
        tol = 2e-5
    dev = deviations(op.name, cfg)
    ident = f"{op.name}|dev={'+'.join(dev) or 'none'}"
    if case.get("env"):
        from models.probe import probe_env

        ident += "|env=" + case["env"]
        r = probe_env(op, cfg, case["seed"], case["env"])
    else:
        r = probe(op, cfg, case["seed"])
    if "skipped" in r:
        return {"skipped": r["skipped"]}
    if "unit_exc" in r:
        return {"violations": [exception_violation(r["unit_exc"], ident)], "outcome": "raises"}
    cs: Dict[str, List[float]] = {}
    nonzero = False
    illcond = 0
    for i, d in enumerate(r["draws"]):
        if not d.get("shape_ok", False):
            continue  # C01's business
        odt = d["shapes"][1].replace("torch.", "")
        tol_i = max(tol, TOL.get(odt, tol))
        for name, recs in d.get("grads", {}).items():
            for j, gr in enumerate(recs):
                where = f"cfg={cfg} input={name} draw={i} upstream={j}"
                if gr.get("missing"):
                    viol.append({"key": ident + f"|grad_missing|{name}", "msg": where + f": no gradient from {gr['missing']}"})
                    continue
                if gr["zero"]:
                    if gr["res"] > 1e-300 and gr["c"] is None and gr["res"] != 0.0:
                        viol.append({"key": ident + f"|grad_nonzero_where_reference_zero|{name}", "msg": where})
                    continue
                if gr.get("noise", 0.0) > tol_i / 4:
                    illcond += 1  # the low-precision reference gradient is itself rounding noise here
                    continue
                nonzero = True
                if not gr.get("dtype_ok", True):
                    viol.append({"key": ident + f"|grad_shape_or_dtype|{name}", "msg": where})
                if gr["res"] > tol_i:
                    viol.append({"key": ident + f"|grad_not_proportional|{name}", "msg": where + f": residual {gr['res']:.3e} c={gr['c']!r}"})
                elif gr["c"] <= 0:
                    viol.append({"key": ident + f"|grad_scalar_not_positive|{name}", "msg": where + f": c={gr['c']!r}"})
                else:
                    cs.setdefault(name, []).append(gr["c"])
    if not viol:
        for name, vals in cs.items():
            lo, hi = min(vals), max(vals)
            if hi - lo > max(tol, 1e-11) * 3 * hi:
                viol.append({"key": ident + f"|grad_scalar_varies|{name}",
                             "msg": f"cfg={cfg} input={name}: scalars over value/upstream draws {vals}"})
    if case.get("env", "").startswith("freeze=") and not viol:
        base = probe(op, cfg, case["seed"], draws=1, gdraws=1)
        if "draws" in base and base["draws"] and base["draws"][0].get("grads"):
            for name, recs in base["draws"][0]["grads"].items():
                if name in cs and recs and recs[0].get("c"):
                    if abs(cs[name][0] - recs[0]["c"]) > 1e-10 * abs(recs[0]["c"]):
                        viol.append({"key": ident + f"|grad_scalar_depends_on_requires_grad_of_other_input|{name}",
                                     "msg": f"cfg={cfg}: scalar for {name} is {cs[name][0]!r} with {case['env']}, {recs[0]['c']!r} otherwise"})
    out = ",".join(f"{k}={v[0]:.4g}" for k, v in sorted(cs.items()))
    return {"violations": viol[:4], "steps": 4 * max(1, len(cs)), "nontrivial": nonzero,
            "outcome": op.name if viol else f"{op.name}:{out}"}
