"""C03 — exact unit scale of (bi)linear ops at initialisation.

Explorer kind L: full product of the shape lattice of each op (constraint None, float64).
Oracle: (fitted scalar)^2 x (measured number of unit-variance terms) = 1, where the term
counts are MEASURED by running the PyTorch reference on all-ones operands.
"""

from __future__ import annotations

from typing import Any, Dict, List

PROPERTY = "C03"
RULE = (
    "case = (op, shape configuration), constraint None, float64; full product of the shape "
    "coordinates; non-trivial = some measured term count != 1"
)
BOUND = {
    "quick": "sizes from {1,2,3,5,8}; linear/readout 6 batch shapes; matmul equal batch dims; conv1d "
    "cin,cout in {1,2,4,6} k in {1,2,3,5} stride 1-3 dilation 1-2 groups {1,2,cin} L=40 no padding; add "
    "4 broadcast patterns; embedding; dropout p in {.1,.5,.9}; mse; norms; residual tau grid",
    "thorough": "sizes from {1,2,3,5,8,16,17,64}",
}
EXHAUSTIVE = {"quick": True, "thorough": True}
ASSUMPTIONS = [
    "the fitted scalars are data-independent (decided by C01/C02); here one value draw is used",
    "term counts come from the PyTorch reference on all-ones operands, not from a formula",
    "conv1d input gradient: mean count over interior positions (whole stride periods); embedding "
    "weight gradient: mean count over rows, as the statement specifies",
]
D_Q = [1, 2, 3, 5, 8]
D_T = [1, 2, 3, 5, 8, 16, 17, 64]
BB = [[2], [], [2, 3], [1, 2, 3], [5], [3, 2, 2]]


def _restr(tier: str) -> Dict[str, Dict[str, List[Any]]]:
    D = D_Q if tier == "quick" else D_T
    return {
        "linear": {"batch": BB, "fin": D, "fout": D, "bias": [False, True]},
        "linear_readout": {"batch": BB, "fin": D, "fout": D, "bias": [False, True]},
        "matmul": {"batch": [[2], [], [2, 3], [1, 2, 3]], "m": D, "k": D, "n": D, "right_batched": [True]},
        "conv1d": {"batch": [[2], [], [3]], "cin": [4, 1, 2, 6], "cout": [2, 1, 4, 6], "k": [3, 1, 2, 5],
                   "L": [40], "stride": [1, 2, 3], "padding": [0], "dilation": [1, 2], "groups": [1, 2, "cin"],
                   "bias": [False, True]},
        "add": {"batch": [[2, 3], [2], [1, 2, 3]], "n": [5, 2, 3],
                "pattern": ["equal", "size1", "missing_leading", "both_expand", "missing_and_size1",
                            "missing_and_size1_left", "size1_inner"]},
        "embedding": {"batch": [[2], [], [2, 3], [1, 2, 3]], "n": [4, 1, 7], "V": [6, 2, 11], "D": [3, 1, 5],
                      "padding_idx": [None, 0, -1], "pad_hit": [False], "max_norm": [None], "norm_type": [2.0]},
        "dropout": {"batch": [[2], [2, 3]], "n": [64, 256], "p": [0.5, 0.1, 0.9], "training": [True]},
        "mse_loss": {"batch": BB, "n": D, "reduction": ["mean", "sum"], "target_grad": [True]},
        "layer_norm": {"batch": BB[:4], "n": [5, 2, 8, 3], "nd": [1, 2], "weight": [True, False], "bias": [True, False],
                       "eps": [1e-5]},
        "rms_norm": {"batch": BB[:4], "n": [5, 2, 8, 3], "nd": [1, 2], "weight": [True], "eps": [1e-5]},
    }


def cases(tier: str, seed: int) -> List[Dict[str, Any]]:
    from models.ops import OPS, lattice

    out: List[Dict[str, Any]] = []
    for name, restr in _restr(tier).items():
        op = OPS[name]
        fixed = {"dtype": "float64"}
        if "constraint" in op.coords:
            fixed["constraint"] = None
        for k, v in op.coords.items():
            if k not in restr and k not in fixed:
                fixed[k] = v[0]
        for cfg in lattice(op, 99, fixed=fixed, restrict=restr):
            out.append({"kind": "probe", "op": name, "cfg": cfg, "seed": seed})
    # requires_grad pattern: one operand frozen at a time (the remaining gradients keep their exact scale)
    for name, restr in _restr(tier).items():
        op = OPS[name]
        fixed = {"dtype": "float64"}
        if "constraint" in op.coords:
            fixed["constraint"] = None
        for k, v in op.coords.items():
            if k not in restr and k not in fixed:
                fixed[k] = v[0]
        for extra in ({}, {"bias": True}, {"weight": True}, {"weight": True, "bias": True}):
            if any(k not in op.coords for k in extra):
                continue
            fx = dict(fixed, **extra)
            rs = {k: v for k, v in restr.items() if k not in extra}
            for cfg in lattice(op, 1, fixed=fx, restrict=rs):
                try:
                    t_ = op.make(cfg, __import__("torch").Generator().manual_seed(0))
                except (RuntimeError, ValueError, KeyError, IndexError):  # the builder cannot make this configuration
                    continue
                fl = [k for k, v in t_.items() if v.is_floating_point() and k not in ("attn_mask",)]
                if len(fl) < 2:
                    continue
                for fz in fl:
                    out.append({"kind": "probe", "op": name, "cfg": cfg, "seed": seed, "freeze": fz})
    # history: the same shapes first used in a low-precision dtype (scale factors must not be cached
    # in that precision)
    for name in ("linear", "matmul", "conv1d", "add", "embedding", "mse_loss"):
        op = OPS[name]
        base = {k: v[0] for k, v in op.coords.items()}
        base.update({"dtype": "float64"})
        if "constraint" in base:
            base["constraint"] = None
        for extra in ({"fin": 5, "fout": 3, "batch": [2, 3]}, {"m": 3, "k": 5, "n": 3}, {"cin": 6, "cout": 6, "k": 3, "L": 40},
                      {"pattern": "missing_leading", "batch": [2, 3], "n": 5}, {"V": 6, "n": 7, "pad_hit": False}, {"n": 3, "target_grad": True}):
            cfg = dict(base, **{k: v for k, v in extra.items() if k in op.coords})
            if op.valid(cfg):
                for pre in ("bfloat16", "float16"):
                    out.append({"kind": "probe", "op": name, "cfg": cfg, "seed": seed, "pre_dtype": pre, "fresh": True})
                break
    for tau in [1e-3, 0.25, 0.5, 1.0, 3.0, 1e3, None]:
        for shape in ([], [3], [2, 3]):
            out.append({"kind": "residual", "tau": tau, "shape": shape})
    return out


def _const(t: Any) -> Any:
    """the common value if the tensor is constant, else None"""
    f = t.flatten()
    if f.numel() == 0:
        return None
    return float(f[0]) if bool((f == f[0]).all()) else None


def run_case(case: Dict[str, Any]) -> Dict[str, Any]:
    import torch
    import torch.nn.functional as F
    from mc.core import exception_violation
    from models.ops import OPS
    from models.probe import probe, term_counts

    viol: List[Dict[str, str]] = []
    if case["kind"] == "residual":
        import unit_scaling.functional as U

        tau, shape = case["tau"], case["shape"]
        kw = {} if tau is None else {"tau": tau}
        one, zero = torch.ones(shape, dtype=torch.float64), torch.zeros(shape, dtype=torch.float64)
        wr = U.residual_add(one, zero, **kw)
        ws = U.residual_add(zero, one, **kw)
        a, b = _const(wr), _const(ws)
        ident = "residual_add"
        if a is None or b is None or abs(a * a + b * b - 1) > 1e-12:
            viol.append({"key": ident + "|weights_not_normalised", "msg": f"tau={tau}: w_res={a} w_skip={b}"})
        x = torch.ones(shape, dtype=torch.float64, requires_grad=True)
        r, s = U.residual_split(x, **kw)
        (gr,) = torch.autograd.grad(r, x, torch.ones_like(r), retain_graph=True)
        (gs,) = torch.autograd.grad(s, x, torch.ones_like(s))
        a2, b2 = _const(gr), _const(gs)
        if a2 is None or b2 is None or abs(a2 * a2 + b2 * b2 - 1) > 1e-12:
            viol.append({"key": "residual_split|weights_not_normalised", "msg": f"tau={tau}: {a2} {b2}"})
        if not (torch.equal(r.detach(), x.detach()) and torch.equal(s.detach(), x.detach())):
            viol.append({"key": "residual_split|forward_touched", "msg": f"tau={tau}"})
        return {"violations": viol, "steps": 4, "outcome": "residual", "nontrivial": tau not in (None,)}

    op = OPS[case["op"]]
    cfg = case["cfg"]
    shape_keys = [k for k in cfg if k not in ("dtype", "constraint")]
    ident = op.name
    if case.get("pre_dtype"):
        ident += f"|after_{case['pre_dtype']}_call"
        try:
            probe(op, dict(cfg, dtype=case["pre_dtype"]), case["seed"], draws=1, gdraws=1)
        except Exception:  # noqa
            pass
    if case.get("freeze"):
        ident += f"|frozen={case['freeze']}"
    r = probe(op, cfg, case["seed"], draws=1, gdraws=1, freeze=case.get("freeze", ""))
    if "skipped" in r:
        return {"skipped": r["skipped"]}
    if "unit_exc" in r:
        return {"violations": [exception_violation(r["unit_exc"], ident)], "outcome": "raises"}
    d = r["draws"][0]
    if not d.get("shape_ok"):
        return {"skipped": "shape mismatch (C01)"}
    s = d["s"]
    cgrad = {k: (v[0]["c"] if v else None) for k, v in d["grads"].items()}
    nontriv = False
    steps = 0

    def check(what: str, scalar: Any, terms: Any, power: int = 2) -> None:
        nonlocal nontriv, steps
        if scalar is None or terms is None:
            return
        steps += 1
        if terms != 1:
            nontriv = True
        val = scalar**power * terms
        if abs(val - 1) > (1e-6 if op.name == "rms_norm" else 1e-11):  # rms statistic is float32 by design
            viol.append({"key": f"{ident}|{what}",
                         "msg": f"cfg={cfg}: scalar={scalar!r} measured terms={terms!r} -> scalar^{power} x terms = {val!r} (expected 1)"})

    if op.name == "dropout":
        v = F.dropout(torch.ones(4096, dtype=torch.float64), p=cfg["p"], training=True)
        nz = v[v != 0]
        vv = float(nz[0]) if nz.numel() else None
        terms = None if vv is None else (1 - cfg["p"]) * vv * vv
        check("output", s, terms)
        check("grad_input", cgrad.get("input"), terms)
    elif op.name == "mse_loss":
        one, zero = torch.ones(cfg["batch"] + [cfg["n"]], dtype=torch.float64), torch.zeros(cfg["batch"] + [cfg["n"]], dtype=torch.float64)
        xa = one.clone().requires_grad_(True)
        (g1,) = torch.autograd.grad(F.mse_loss(xa, zero, reduction="sum"), xa)
        xb = zero.clone().requires_grad_(True)
        (g2,) = torch.autograd.grad(F.mse_loss(xb, one, reduction="sum"), xb)
        c1, c2 = _const(g1), _const(g2)
        terms = None if c1 is None or c2 is None else c1 * c1 + c2 * c2
        check("grad_input", cgrad.get("input"), terms)
        check("grad_target", cgrad.get("target"), terms)
    else:
        cc = dict(cfg)
        if op.name == "rms_norm":
            cc["eps"] = 0.0  # all-ones rows then normalise to exactly 1: the weight gradient counts rows
        tc = term_counts(op, cc)
        if op.name in ("layer_norm", "rms_norm"):
            if op.name == "layer_norm":
                # rows are counted on the bias gradient of the reference run WITH a bias (one term per row)
                tcb = term_counts(op, dict(cc, weight=True, bias=True))
                rows = _const(tcb["bias"])
            else:
                rows = _const(tc["weight"])
            check("grad_weight", cgrad.get("weight"), rows)
            if op.name == "layer_norm":
                check("grad_bias", cgrad.get("bias"), rows)
        else:
            out_terms = _const(tc["out"])
            if op.name == "linear_readout":
                check("output_readout", s, out_terms, power=1)
            elif op.name != "embedding":
                check("output", s, out_terms)
            for name, cnt in tc.items():
                if name == "out" or cnt is None or name not in cgrad:
                    continue
                terms = _const(cnt)
                if op.name == "conv1d" and name == "input":
                    k, dil, st, L = cfg["k"], cfg["dilation"], cfg["stride"], cfg["L"]
                    lo = dil * (k - 1)
                    hi = L - dil * (k - 1) - st
                    n = ((hi - lo) // st) * st
                    if n <= 0:
                        continue
                    interior = cnt[..., lo:lo + n]
                    terms = float(interior.mean())
                    per_chan = interior.mean(-1)
                    if _const(per_chan) is None:
                        continue
                elif op.name == "embedding" and name == "weight":
                    terms = float(cnt.mean())
                elif terms is None:
                    continue  # count varies over the tensor: outside the exact clause
                check(f"grad_{name}", cgrad.get(name), terms)
    return {"violations": viol[:4], "steps": steps, "nontrivial": nontriv,
            "outcome": op.name + (":bad" if viol else ":unit")}
