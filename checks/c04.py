"""C04 — nonlinear ops stay near unit scale across their hyperparameter range.

Explorer kind L on a grid: the stated continuous ranges are walked on log-grids including
the end points.  Oracle: expectation under N(0,1) of the IMPLEMENTATION's output and
autograd gradient - by 200-point Gauss-Hermite quadrature for elementwise ops (exact to
1e-9), by fixed-seed Monte-Carlo with >= 2^20 elements otherwise - against the thresholds
of the statement.
"""

from __future__ import annotations

import math
from typing import Any, Dict, List

PROPERTY = "C04"
RULE = (
    "case = (op, hyperparameter grid point); every grid point is evaluated; non-trivial = all "
    "(the statistic is a non-constant function of the hyperparameters)"
)
BOUND = {
    "quick": "gelu(exact,tanh)/silu/silu_glu: mult = 2^(j/8), j=-32..32 (65 points); softmax width "
    "{16,17,64,256,1000,4096} x mult 2^(j/4) in [1/8,4]; attention seq {16,64,256,1024} x head "
    "{16,64,128} x mult 2^j in [1/4,16] x causal x dropout {0,0.3}; cross-entropy vocab "
    "{2,3,4,8,16,100,1000,32000} x mult {1/8..4} + uniform logits; norms width {16,17,32,64,256,1024} x 6 factorizations "
    "of the normalised shape (incl. trailing dimension 1, 2, 4); cross-attention (6 unequal length pairs, output clause)",
    "thorough": "grid steps halved (mult = 2^(j/16), 2^(j/8), 2^(j/2)) and intermediate sizes added",
}
EXHAUSTIVE = {"quick": True, "thorough": True}
ASSUMPTIONS = [
    "A2: the continuum between grid points is not enumerated (scale models are smooth in log-mult)",
    "Monte-Carlo expectations (softmax, attention, cross-entropy, norms) are estimates with "
    ">= 2^20 elements (sampling error < 0.5%); thresholds have >= 4% margin on the pinned tree",
    "elementwise expectations by 200-point (80x80 for silu_glu) Gauss-Hermite quadrature of the "
    "implementation's own outputs/gradients",
]


def _pow2grid(lo: float, hi: float, per_octave: int) -> List[float]:
    a, b = round(math.log2(lo) * per_octave), round(math.log2(hi) * per_octave)
    return [2.0 ** (j / per_octave) for j in range(a, b + 1)]


def cases(tier: str, seed: int) -> List[Dict[str, Any]]:
    th = tier == "thorough"
    out: List[Dict[str, Any]] = []
    for m in _pow2grid(1 / 16, 16, 16 if th else 8):
        for op in ("gelu_none", "gelu_tanh", "silu", "silu_glu"):
            out.append({"op": op, "mult": m})
    widths = [16, 17, 64, 256, 1000, 4096] + ([32, 100, 2048] if th else [])
    for w in widths:
        for m in _pow2grid(1 / 8, 4, 8 if th else 4):
            out.append({"op": "softmax", "width": w, "mult": m, "seed": seed})
    # half-precision softmax at the corners of the range (the gradient scale reaches width/mult = 32768)
    for w in (16, 2048, 4096):
        for m in (1 / 8, 1 / 4, 1.0, 4.0):
            for dt in ("float16", "bfloat16"):
                out.append({"op": "softmax", "width": w, "mult": m, "seed": seed, "dtype": dt})
    seqs = [16, 64, 256, 1024] + ([32, 512] if th else [])
    heads = [16, 64, 128] + ([32] if th else [])
    for s in seqs:
        for d in heads:
            for m in _pow2grid(1 / 4, 16, 2 if th else 1):
                for causal in (False, True):
                    for dp in (0.0, 0.3) + ((0.1,) if th else ()):
                        out.append({"op": "attention", "seq": s, "d": d, "mult": m, "causal": causal,
                                    "dropout_p": dp, "seed": seed})
    # cross-attention: query and key/value sequence lengths both in range but different (output clause only:
    # the value gradient sums over the queries and is not claimed for unequal lengths)
    for sq, skv in [(16, 1024), (1024, 16), (64, 512), (128, 32), (16, 17), (256, 64)] + ([(512, 1024), (32, 16)] if th else []):
        for d in (16, 128) if not th else heads:
            for m in _pow2grid(1 / 4, 16, 1):
                for dp in (0.0, 0.3):
                    out.append({"op": "attention", "seq": skv, "seq_q": sq, "d": d, "mult": m, "causal": False, "dropout_p": dp, "seed": seed})
    # call history: the same (sequence, head size, mult) used causal and non-causal in ONE fresh process
    for s_, d_ in ((256, 16), (1024, 64)):
        for order in ([False, True, False], [True, False, True]):
            out.append({"op": "attention_history", "seq": s_, "d": d_, "mult": 1.0, "order": order, "seed": seed, "fresh": True})
    vocabs = [2, 3, 4, 8, 16, 100, 1000, 32000] + ([5, 50, 5000] if th else [])
    for v in vocabs:
        for m in _pow2grid(1 / 8, 4, 2 if th else 1):
            for red in ("mean", "sum"):
                out.append({"op": "cross_entropy", "V": v, "mult": m, "reduction": red, "uniform": False, "seed": seed})
            out.append({"op": "cross_entropy", "V": v, "mult": m, "reduction": "mean", "uniform": True, "seed": seed})
            if m in (1.0, 0.5, 4.0):
                # padding labels: a fraction of the targets equals ignore_index (default -100, or a class id chosen by
                # the caller); the rows that DO receive a gradient keep unit scale (exactly 1 for uniform logits)
                for frac, ii in ((0.25, None), (0.5, None), (0.75, 0)):
                    out.append({"op": "cross_entropy", "V": v, "mult": m, "reduction": "mean", "uniform": False, "ignored": frac, "ignore_index": ii, "seed": seed})
                    out.append({"op": "cross_entropy", "V": v, "mult": m, "reduction": "mean", "uniform": True, "ignored": frac, "ignore_index": ii, "seed": seed})
            if v <= 1000:
                # the same targets given as one-hot class probabilities (a valid F.cross_entropy form; same gradient)
                for red in ("mean", "sum"):
                    out.append({"op": "cross_entropy", "V": v, "mult": m, "reduction": red, "uniform": False, "onehot": True, "seed": seed})
                out.append({"op": "cross_entropy", "V": v, "mult": m, "reduction": "mean", "uniform": True, "onehot": True, "seed": seed})
    for w in [16, 17, 32, 64, 256, 1024] + ([24, 100, 4096] if th else []):
        for op in ("layer_norm", "rms_norm"):
            for nd in (1, 2):
                out.append({"op": op, "width": w, "nd": nd, "seed": seed})
            # normalised shapes with a short trailing dimension (same normalised width)
            for split in ("x4", "x2", "2x2x", "x1") if w % 4 == 0 else ("x1",):
                out.append({"op": op, "width": w, "nd": split, "seed": seed})
    return out


def _gh(n: int) -> Any:
    import numpy as np
    import torch

    x, w = np.polynomial.hermite.hermgauss(n)
    return torch.tensor(x * math.sqrt(2), dtype=torch.float64), torch.tensor(w / math.sqrt(math.pi), dtype=torch.float64)


def run_case(case: Dict[str, Any]) -> Dict[str, Any]:
    import torch
    import unit_scaling.functional as U
    from mc.core import derive_seed

    op = case["op"]
    viol: List[Dict[str, str]] = []
    stats: Dict[str, float] = {}

    def rms(t: Any) -> float:
        return float(t.detach().double().pow(2).mean().sqrt())

    def check(name: str, val: float, lo: float, hi: float) -> None:
        stats[name] = val
        if not (lo <= val <= hi):
            viol.append({"key": f"{op}|{name}_out_of_range",
                         "msg": f"{ {k: v for k, v in case.items() if k != 'seed'} }: {name}={val:.4f} not in [{lo},{hi}]"})

    if op == "attention_history":
        for pos, causal in enumerate(case["order"]):
            r = run_case({"op": "attention", "seq": case["seq"], "d": case["d"], "mult": case["mult"], "causal": causal,
                          "dropout_p": 0.0, "seed": case["seed"]})
            for v in r["violations"]:
                viol.append({"key": v["key"].replace("attention|", "attention_history|") + f"|call={pos}", "msg": v["msg"] + f" (call #{pos} of {case['order']})"})
        return {"violations": viol[:3], "steps": len(case["order"]), "outcome": "attention_history:" + ("ok" if not viol else "bad")}
    if op in ("gelu_none", "gelu_tanh", "silu"):
        x, w = _gh(200)
        x = x.clone().requires_grad_(True)
        m = case["mult"]
        if op == "silu":
            y = U.silu(x, mult=m, constraint=None)
        else:
            y = U.gelu(x, mult=m, constraint=None, approximate=op.split("_")[1])
        (gx,) = torch.autograd.grad(y, x, torch.ones_like(y))
        ey, ey2 = float((w * y.detach()).sum()), float((w * y.detach() ** 2).sum())
        check("output_std", math.sqrt(max(ey2 - ey * ey, 0.0)), 0.93, 1.07)
        check("grad_rms", math.sqrt(float((w * gx**2).sum())), 0.93, 1.07)
    elif op == "silu_glu":
        x1, w1 = _gh(80)
        X, G = torch.meshgrid(x1, x1, indexing="ij")
        W = w1[:, None] * w1[None, :]
        X = X.clone().requires_grad_(True)
        G = G.clone().requires_grad_(True)
        y = U.silu_glu(X, G, mult=case["mult"])
        gx, gg = torch.autograd.grad(y, [X, G], torch.ones_like(y))
        ey, ey2 = float((W * y.detach()).sum()), float((W * y.detach() ** 2).sum())
        check("output_std", math.sqrt(max(ey2 - ey * ey, 0.0)), 0.93, 1.07)
        check("grad_input_rms", math.sqrt(float((W * gx**2).sum())), 0.93, 1.07)
        check("grad_gate_rms", math.sqrt(float((W * gg**2).sum())), 0.93, 1.07)
    else:
        g = torch.Generator().manual_seed(derive_seed(case.get("seed", 0), "C04", op, repr(sorted(case.items()))) % (2**31))
        N = 2**20
        if op == "softmax":
            wd = case["width"]
            rows = max(N // wd, 64)
            sdt = getattr(torch, case.get("dtype", "float32"))
            x = torch.randn(rows, wd, generator=g).to(sdt).requires_grad_(True)
            y = U.softmax(x, dim=-1, mult=case["mult"], constraint=None)
            (gx,) = torch.autograd.grad(y, x, torch.randn(y.shape, generator=g).to(sdt))
            check("output_rms", rms(y), 0.55, 1.35)
            check("grad_rms", rms(gx), 0.55, 1.35)
        elif op == "attention":
            s, d = case["seq"], case["d"]
            b = max(N // (s * d), 2)
            sq = case.get("seq_q", s)
            b = max(N // (max(s, sq) * d), 2)
            q = torch.randn(b, 1, sq, d, generator=g).requires_grad_(True)
            k, v = (torch.randn(b, 1, s, d, generator=g).requires_grad_(True) for _ in range(2))
            torch.manual_seed(derive_seed(case.get("seed", 0), "C04drop") % (2**31))
            y = U.scaled_dot_product_attention(q, k, v, dropout_p=case["dropout_p"], is_causal=case["causal"], mult=case["mult"])
            (gv,) = torch.autograd.grad(y, v, torch.randn(y.shape, generator=g))
            check("output_rms", rms(y), 0.7, 1.3)
            if sq == s:
                check("grad_value_rms", rms(gv), 0.7, 1.3)
        elif op == "cross_entropy":
            V = case["V"]
            n = max(N // V, 32)
            x = torch.zeros(n, V) if case["uniform"] else torch.randn(n, V, generator=g)
            x = x.double().requires_grad_(True)
            t = torch.randint(0, V, (n,), generator=g)
            if case.get("onehot"):
                t = torch.nn.functional.one_hot(t, V).to(torch.float64)
            kw_ce: Dict[str, Any] = {}
            if case.get("ignored"):
                ii = case.get("ignore_index")
                drop = torch.arange(n) % 4 < int(round(case["ignored"] * 4))
                if ii is None:
                    t = torch.where(drop, torch.full_like(t, -100), t)
                else:
                    t = torch.where(drop, torch.full_like(t, ii), torch.where(t == ii, torch.full_like(t, (ii + 1) % V), t))
                    kw_ce["ignore_index"] = ii
            loss = U.cross_entropy(x, t, reduction=case["reduction"], mult=case["mult"], **kw_ce)
            (gx,) = torch.autograd.grad(loss, x)
            if case.get("ignored"):
                if bool((gx[drop] != 0).any()):
                    viol.append({"key": f"{op}|ignored_target_receives_gradient", "msg": f"V={V} mult={case['mult']} ignored={case['ignored']}"})
                gx = gx[~drop]
            if case["uniform"]:
                check("grad_rms_uniform_logits", rms(gx), 1 - 1e-9, 1 + 1e-9)
            else:
                check("grad_rms", rms(gx), 0.95, 1.45)
        else:
            wd = case["width"]
            nd_ = case["nd"]
            if nd_ in (1, 2):
                ns = (wd,) if nd_ == 1 else (2, wd // 2) if wd % 2 == 0 else (1, wd)
            else:
                ns = {"x4": (wd // 4, 4), "x2": (wd // 2, 2), "2x2x": (2, 2, wd // 4), "x1": (wd, 1)}[nd_]
            rows = max(N // wd, 64)
            x = torch.randn((rows,) + ns, generator=g).requires_grad_(True)
            if op == "layer_norm":
                y = U.layer_norm(x, list(ns), torch.ones(ns), torch.zeros(ns))
            else:
                y = U.rms_norm(x, ns, torch.ones(ns))
            (gx,) = torch.autograd.grad(y, x, torch.randn(y.shape, generator=g))
            check("output_rms", rms(y), 0.9, 1.1)
            check("grad_rms", rms(gx), 0.9, 1.1)
    outcome = op + ":" + ",".join(f"{k}={v:.2f}" for k, v in stats.items())
    return {"violations": viol, "steps": len(stats), "outcome": outcome if not viol else op + ":bad",
            "stats": stats}


def summarise(results: List[Dict[str, Any]], tier: str, seed: int) -> Dict[str, Any]:
    ranges: Dict[str, List[float]] = {}
    for r in results:
        op = r["case"]["op"]
        for k, v in (r.get("stats") or {}).items():
            key = f"{op}.{k}"
            lo, hi = ranges.get(key, [v, v])
            ranges[key] = [min(lo, v), max(hi, v)]
    return {"observed_ranges": {k: [round(a, 4), round(b, 4)] for k, v in sorted(ranges.items()) for a, b in [v]}}
