"""C05 — a constraint collapses forward and backward scales to one value: true gradients.

Explorer kind L: every op taking a constraint x every constraint name valid for its arity
x shape lattice (<= d deviations); oracle = my own implementation of the rule applied to
the scalars fitted under constraint=None, plus torch.autograd.gradcheck on the smallest
shapes.  Part E: the rule functions on ALL tuples of length 1-4 over a 7-value alphabet and
length 5-6 over a 3-value alphabet.
"""

from __future__ import annotations

import itertools
import math
from fractions import Fraction
from typing import Any, Dict, List, Optional

PROPERTY = "C05"
RULE = (
    "case = (op, configuration with a named constraint) -> probes under None and under the name; "
    "or (op, unknown name); or (rule function, tuple of scales); non-trivial = the unconstrained "
    "scales differ from each other (the constraint changes something)"
)
BOUND = {
    "quick": "9 constrained ops x all valid names x <=2 deviating shape/hyperparameter coordinates; "
    "fixed-constraint ops (silu_glu, attention); 8 unknown names x 9 ops; rule functions on all "
    "7^1..7^4 and 3^5,3^6 tuples; gradcheck on the default shapes",
    "thorough": "<=3 deviating coordinates",
}
EXHAUSTIVE = {"quick": True, "thorough": True}
ASSUMPTIONS = [
    "fitted scalars come from one value draw (data-independence is C01/C02's claim)",
    "rule-function scales from a 7-value alphabet spanning [1e-6,1e6] (A2)",
]
ALPHA7 = [1e-6, 1e-3, 0.5, 1.0, 2.0, 1e3, 1e6]
ALPHA3 = [1e-6, 1.0, 1e6]
UNKNOWN = ["foo", "Gmean", "to_output", "pow", "prod", "sys", "Optional", "apply_constraint"]
CONSTRAINED_OPS = ["gelu", "silu", "softmax", "matmul", "linear", "linear_readout", "conv1d", "add"]


def rule(name: str, s0: float, cs: List[float]) -> Optional[float]:
    """Independent implementation of the named rules."""
    allv = [s0] + cs
    if name == "gmean":
        return math.exp(math.fsum(math.log(v) for v in allv) / len(allv))
    if name == "hmean":
        return len(allv) / math.fsum(1 / v for v in allv)
    if name == "amean":
        return math.fsum(allv) / len(allv)
    if name == "to_output_scale":
        return s0
    if name in ("to_grad_input_scale", "to_left_grad_scale"):
        return cs[0]
    if name == "to_right_grad_scale":
        return cs[1]
    return None


def cases(tier: str, seed: int) -> List[Dict[str, Any]]:
    from models.ops import OPS, lattice

    d = 2 if tier == "quick" else 3
    out: List[Dict[str, Any]] = []
    for name in CONSTRAINED_OPS:
        op = OPS[name]
        names = [c for c in op.coords["constraint"] if c not in (None, "")]
        for cfg in lattice(op, d, fixed={"dtype": "float64", "constraint": None},
                           restrict={"sm_dtype": [None, "float64"]}):  # float32 softmax: fits only to 1e-7
            for c in names:
                out.append({"kind": "probe", "op": name, "cfg": cfg, "constraint": c, "seed": seed})
            out.append({"kind": "probe", "op": name, "cfg": cfg, "constraint": "", "seed": seed})
    # requires_grad pattern: one constrained operand frozen (the other keeps the rule's scale)
    for name in ("matmul", "add", "linear", "linear_readout", "conv1d"):
        op = OPS[name]
        names = [c for c in op.coords["constraint"] if c not in (None, "")]
        for cfg in lattice(op, 1, fixed={"dtype": "float64", "constraint": None}):
            for c in names:
                for fz in op.constrained(dict(cfg, constraint=c)):
                    out.append({"kind": "probe", "op": name, "cfg": cfg, "constraint": c, "seed": seed, "freeze": fz})
    # dtype coordinate: the same rule in float16 / bfloat16 (scalars fitted to the precision of the dtype)
    for name in CONSTRAINED_OPS:
        op = OPS[name]
        names = [c for c in op.coords["constraint"] if c not in (None, "")]
        for lp in ("float16", "bfloat16"):
            for cfg in lattice(op, 1, fixed={"dtype": lp, "constraint": None}, restrict={"sm_dtype": [None]}):
                for c in names:
                    out.append({"kind": "probe", "op": name, "cfg": cfg, "constraint": c, "seed": seed})
    for name in ("silu_glu", "scaled_dot_product_attention"):
        for cfg in lattice(OPS[name], d, fixed={"dtype": "float64"}):
            out.append({"kind": "fixed", "op": name, "cfg": cfg, "seed": seed})
    # call history: the same op/constraint first used in a low-precision dtype, then probed in float64
    for name in CONSTRAINED_OPS:
        op = OPS[name]
        for c in [x for x in op.coords["constraint"] if x not in (None, "")][:3]:
            for pre in ("bfloat16", "float16"):
                out.append({"kind": "probe", "op": name, "cfg": dict({k: v[0] for k, v in op.coords.items()}, dtype="float64", constraint=None,
                                                                   **({"fin": 5, "fout": 3} if "fin" in op.coords else {})),
                            "constraint": c, "seed": seed, "pre_dtype": pre, "fresh": True})
    # module level: every module taking a constraint hands it to its functional form on EVERY forward path
    # (e.g. the explicit-padding branch of Conv1d): full product constraint x path-selecting options
    BINM = ["to_output_scale", None, "gmean", "hmean", "amean", "to_grad_input_scale", ""]
    for c in BINM:
        for pm, pad, bias in itertools.product(["zeros", "circular", "reflect", "replicate"], [0, 1, 2], [False, True]):
            out.append({"kind": "module", "cls": "Conv1d", "seed": seed, "opt": {
                "cin": 4, "cout": 2, "k": 3, "stride": 1, "padding": pad, "padding_mode": pm, "dilation": 1, "groups": 1, "bias": bias, "constraint": c}})
        for bias, (fi, fo) in itertools.product([False, True], [(5, 3), (1, 8), (5, 8)]):
            out.append({"kind": "module", "cls": "Linear", "seed": seed, "opt": {"fin": fi, "fout": fo, "bias": bias, "constraint": c}})
            out.append({"kind": "module", "cls": "LinearReadout", "seed": seed, "opt": {"fin": fi, "fout": fo, "bias": bias, "constraint": c}})
        for mult in (1.0, 0.25, 3.0):
            out.append({"kind": "module", "cls": "GELU", "seed": seed, "opt": {"mult": mult, "constraint": c, "approximate": "none"}})
            out.append({"kind": "module", "cls": "SiLU", "seed": seed, "opt": {"mult": mult, "constraint": c}})
            for dim in (-1, 0, 1):
                out.append({"kind": "module", "cls": "Softmax", "seed": seed, "opt": {"dim": dim, "mult": mult, "constraint": c}})
    # residual ops: forward and backward weights of each path are one value (fixed constraint)
    for tau in (1e-3, 0.25, 0.5, 1.0, 3.0, 1e3, None):
        out.append({"kind": "residual", "tau": tau})
    for name in CONSTRAINED_OPS:
        for u in UNKNOWN:
            out.append({"kind": "unknown", "op": name, "name": u})
    out.append({"kind": "unknown_history", "fresh": True})
    for n in (1, 2, 3, 4):
        tuples = list(itertools.product(ALPHA7, repeat=n))
        for i in range(0, len(tuples), 343):
            out.append({"kind": "rules", "n": n, "alpha": 7, "lo": i, "hi": i + 343})
    for n in (5, 6):
        out.append({"kind": "rules", "n": n, "alpha": 3, "lo": 0, "hi": 3**n})
    return out


def run_case(case: Dict[str, Any]) -> Dict[str, Any]:
    import torch
    from mc.core import exception_violation
    from models.ops import OPS, default_cfg
    from models.probe import probe

    viol: List[Dict[str, str]] = []
    kind = case["kind"]
    if kind == "module":
        # module(options, constraint) == functional(options, constraint) on the module's own parameters, values and
        # every gradient (oracle shared with C08; the functional side is decided by the probe cases above)
        from checks import c08

        r = c08._simple({"cls": case["cls"], "opt": case["opt"], "train": True, "batch": [2, 3], "seed": case["seed"]})
        for v in r.get("violations", []):
            v["key"] = "module|" + v["key"]
        if "outcome" in r:
            r["outcome"] = "module:" + r["outcome"]
        return r
    if kind == "rules":
        from unit_scaling import constraints as C

        alpha = ALPHA7 if case["alpha"] == 7 else ALPHA3
        tuples = list(itertools.product(alpha, repeat=case["n"]))[case["lo"]:case["hi"]]
        n = 0
        for tp in tuples:
            n += 1
            vals = {}
            for nm in ("gmean", "hmean", "amean"):
                got = getattr(C, nm)(*tp)
                want = rule(nm, tp[0], list(tp[1:]))
                vals[nm] = got
                if not abs(got - want) <= 1e-12 * abs(want):
                    viol.append({"key": f"rules|{nm}|value", "msg": f"{nm}{tp} = {got!r}, expected {want!r}"})
                perm = getattr(C, nm)(*reversed(tp))
                if not abs(perm - got) <= 1e-13 * abs(got):
                    viol.append({"key": f"rules|{nm}|not_symmetric", "msg": f"{nm}{tp} = {got!r} vs reversed {perm!r}"})
                rot = getattr(C, nm)(*(tp[1:] + tp[:1]))
                if not abs(rot - got) <= 1e-13 * abs(got):
                    viol.append({"key": f"rules|{nm}|not_symmetric", "msg": f"{nm}{tp} = {got!r} vs rotated {rot!r}"})
                if not (min(tp) * (1 - 1e-12) <= got <= max(tp) * (1 + 1e-12)):
                    viol.append({"key": f"rules|{nm}|outside_range", "msg": f"{nm}{tp} = {got!r}"})
                ac = C.apply_constraint(nm, *tp)
                if not (isinstance(ac, tuple) and len(ac) == len(tp) and all(a == ac[0] for a in ac) and ac[0] == got):
                    viol.append({"key": f"rules|apply_constraint|{nm}", "msg": f"{tp} -> {ac!r}"})
            if not (vals["hmean"] <= vals["gmean"] * (1 + 1e-12) and vals["gmean"] <= vals["amean"] * (1 + 1e-12)):
                viol.append({"key": "rules|mean_inequality", "msg": f"{tp}: h={vals['hmean']!r} g={vals['gmean']!r} a={vals['amean']!r}"})
            if C.apply_constraint(None, *tp) != tuple(tp) or C.apply_constraint("", *tp) != tuple(tp):
                viol.append({"key": "rules|none_changes_scales", "msg": f"{tp}"})
            if len(tp) >= 2:
                if C.apply_constraint("to_output_scale", *tp) != tuple(tp[0] for _ in tp):
                    viol.append({"key": "rules|to_output_scale", "msg": f"{tp}"})
            if len(tp) == 2 and C.apply_constraint("to_grad_input_scale", *tp) != (tp[1], tp[1]):
                viol.append({"key": "rules|to_grad_input_scale", "msg": f"{tp}"})
            if len(tp) == 3:
                if C.apply_constraint("to_left_grad_scale", *tp) != (tp[1],) * 3:
                    viol.append({"key": "rules|to_left_grad_scale", "msg": f"{tp}"})
                if C.apply_constraint("to_right_grad_scale", *tp) != (tp[2],) * 3:
                    viol.append({"key": "rules|to_right_grad_scale", "msg": f"{tp}"})
            if len(viol) > 3:
                break
        return {"violations": viol[:4], "steps": n, "n_states": n, "outcome": "rules"}

    op = OPS[case["op"]] if "op" in case else None
    if kind == "unknown_history":
        # every unknown name is used REPEATEDLY in one (fresh) process, through apply_constraint and through every op:
        # each use raises ValueError (no name is remembered as valid after its first rejection)
        from unit_scaling import constraints as C

        n = 0
        for rep in range(3):
            for nm in UNKNOWN:
                calls = [("apply_constraint", lambda nm=nm: C.apply_constraint(nm, 0.5, 0.25))]
                for opn in CONSTRAINED_OPS:
                    o_ = OPS[opn]
                    cfg_ = dict(default_cfg(o_), dtype="float64", constraint=nm)
                    t_ = o_.make(cfg_, torch.Generator().manual_seed(0))
                    calls.append((opn, lambda o_=o_, t_=t_, cfg_=cfg_: o_.unit(t_, cfg_)))
                for where, fn_ in calls:
                    n += 1
                    try:
                        fn_()
                        viol.append({"key": f"unknown_history|{where}|name_accepted|use={rep + 1}", "msg": f"constraint={nm!r} accepted on use #{rep + 1}"})
                    except ValueError:
                        pass
                    except Exception as e:  # noqa
                        viol.append({"key": f"unknown_history|{where}|wrong_error|use={rep + 1}", "msg": f"constraint={nm!r}: {type(e).__name__}: {e}"})
        return {"violations": viol[:4], "steps": n, "nontrivial": True, "outcome": "unknown_history"}
    if kind == "unknown":
        cfg = dict(default_cfg(op), dtype="float64", constraint=case["name"])
        t = op.make(cfg, torch.Generator().manual_seed(0))
        try:
            op.unit(t, cfg)
            viol.append({"key": f"{op.name}|unknown_name_accepted|{case['name']}", "msg": f"constraint={case['name']!r} accepted"})
        except ValueError:
            pass
        except Exception as e:  # noqa
            viol.append({"key": f"{op.name}|unknown_name_wrong_error|{case['name']}", "msg": f"{type(e).__name__}: {e}"})
        return {"violations": viol, "outcome": "unknown"}

    if kind == "residual":
        import unit_scaling.functional as U

        tau = case["tau"]
        kw = {} if tau is None else {"tau": tau}
        one, zero = torch.ones(3, dtype=torch.float64), torch.zeros(3, dtype=torch.float64)
        wr = float(U.residual_add(one, zero, **kw)[0])
        ws = float(U.residual_add(zero, one, **kw)[0])
        x = torch.ones(3, dtype=torch.float64, requires_grad=True)
        r, sk = U.residual_split(x, **kw)
        br = float(torch.autograd.grad(r.sum(), x, retain_graph=True)[0][0])
        bs = float(torch.autograd.grad(sk.sum(), x)[0][0])
        if abs(wr - br) > 1e-12 or abs(ws - bs) > 1e-12:
            viol.append({"key": "residual|forward_backward_weights_differ", "msg": f"tau={tau}: forward ({wr}, {ws}) backward ({br}, {bs})"})
        g = torch.Generator().manual_seed(1)
        W = torch.randn(3, 3, dtype=torch.float64, generator=g)
        xin = torch.randn(2, 3, dtype=torch.float64, generator=g, requires_grad=True)
        try:
            ok = torch.autograd.gradcheck(lambda t: U.residual_apply(lambda r_: torch.tanh(r_ @ W), t, **kw), (xin,), eps=1e-6,
                                          atol=1e-6, rtol=1e-5, raise_exception=False)
        except Exception:  # noqa
            ok = False
        if not ok:
            viol.append({"key": "residual|gradcheck_residual_apply", "msg": f"tau={tau}"})
        return {"violations": viol, "steps": 3, "outcome": "residual", "nontrivial": tau not in (None, 1.0)}
    cfg = case["cfg"]
    if kind == "fixed":
        ident = op.name
        r = probe(op, cfg, case["seed"], draws=1, gdraws=1)
        if "skipped" in r:
            return {"skipped": r["skipped"]}
        if "unit_exc" in r:
            return {"violations": [exception_violation(r["unit_exc"], ident)], "outcome": "raises"}
        d = r["draws"][0]
        if not d.get("shape_ok") or d["s"] is None:
            return {"skipped": "degenerate"}
        for nm in op.constrained(cfg):
            g = d["grads"].get(nm) or []
            if g and g[0]["c"] is not None and abs(g[0]["c"] - d["s"]) > 1e-10 * abs(d["s"]):
                viol.append({"key": f"{ident}|fixed_constraint|{nm}", "msg": f"cfg={cfg}: forward {d['s']!r} vs grad({nm}) {g[0]['c']!r}"})
        return {"violations": viol, "steps": 1, "outcome": op.name}

    cname = case["constraint"]
    ident = f"{op.name}|constraint={cname or 'empty'}"
    if case.get("pre_dtype"):
        ident += f"|after_{case['pre_dtype']}_call"
        try:
            probe(op, dict(cfg, constraint=cname, dtype=case["pre_dtype"]), case["seed"], draws=1, gdraws=1)
            probe(op, dict(cfg, constraint=None, dtype=case["pre_dtype"]), case["seed"], draws=1, gdraws=1)
        except Exception:  # noqa - low precision unsupported for this op: no history step
            pass
    r0 = probe(op, dict(cfg, constraint=None), case["seed"], draws=1, gdraws=1)
    fz = case.get("freeze", "")
    if fz:
        # the unconstrained scalars come from the all-trainable run; the constrained run has one operand frozen
        try:
            t_probe = op.make(dict(cfg, constraint=None), torch.Generator().manual_seed(0))
        except Exception:  # noqa
            return {"skipped": "build"}
        if fz not in t_probe or not t_probe[fz].is_floating_point():
            return {"skipped": "no such operand"}
        ident += f"|frozen={fz}"
    r1 = probe(op, dict(cfg, constraint=cname), case["seed"], draws=1, gdraws=1, freeze=fz)
    for r in (r0, r1):
        if "skipped" in r:
            return {"skipped": r["skipped"]}
        if "unit_exc" in r:
            return {"violations": [exception_violation(r["unit_exc"], ident)], "outcome": "raises"}
    d0, d1 = r0["draws"][0], r1["draws"][0]
    if not (d0.get("shape_ok") and d1.get("shape_ok")) or d0["s"] is None or d1["s"] is None:
        return {"skipped": "degenerate"}
    names = op.constrained(cfg)
    c0 = {k: (v[0]["c"] if v else None) for k, v in d0["grads"].items()}
    c1 = {k: (v[0]["c"] if v else None) for k, v in d1["grads"].items()}
    names_all = list(names)
    if fz:
        names = [k for k in names if k != fz]
        c1 = dict(c1, **{fz: c0.get(fz)})
    if any(c0.get(k) is None or c1.get(k) is None for k in names_all):
        return {"skipped": "degenerate gradient"}
    if op.name == "add" and cfg["pattern"].startswith("py_"):
        names = []
    want = d0["s"] if cname == "" or not names_all else rule(cname, d0["s"], [c0[k] for k in names_all])
    tol = 1e-10
    lowp = cfg.get("dtype", "float64") != "float64"
    if lowp:
        from models.probe import TOL as _TOL

        tol = 4 * _TOL[cfg["dtype"]]
        ident += f"|dtype={cfg['dtype']}"
        if max(d0["res"], d1["res"]) > _TOL[cfg["dtype"]] or any(
                (v[0].get("res", 0.0) > _TOL[cfg["dtype"]] or v[0].get("noise", 0.0) > _TOL[cfg["dtype"]] / 4)
                for dd in (d0, d1) for v in dd["grads"].values() if v):
            return {"skipped": "low-precision fit too noisy to decide"}
    if cname == "":
        # empty string behaves like None
        if abs(d1["s"] - d0["s"]) > tol * abs(d0["s"]) or any(abs(c1[k] - c0[k]) > tol * abs(c0[k]) for k in c0 if c0[k]):
            viol.append({"key": ident + "|empty_name_not_none", "msg": f"cfg={cfg}"})
    elif names:
        if abs(d1["s"] - want) > tol * abs(want):
            viol.append({"key": ident + "|forward_scale", "msg": f"cfg={cfg}: forward {d1['s']!r}, rule({d0['s']!r}, {[c0[k] for k in names]}) = {want!r}"})
        for k in names:
            if abs(c1[k] - want) > tol * abs(want):
                viol.append({"key": ident + f"|grad_scale|{k}", "msg": f"cfg={cfg}: grad({k}) {c1[k]!r}, expected {want!r}"})
    for k in c0:
        if k not in names and c0[k] is not None and c1.get(k) is not None and abs(c1[k] - c0[k]) > tol * abs(c0[k]):
            viol.append({"key": ident + f"|unconstrained_scale_changed|{k}", "msg": f"cfg={cfg}: {c0[k]!r} -> {c1[k]!r}"})
    steps = 2
    # gradcheck: the gradient w.r.t. constrained inputs is the true derivative
    from checks._probe_common import deviations

    if names and cname != "" and not viol and op.name not in ("dropout",):
        # the function evaluated without autograd (inference, constant inputs) is the function that is differentiated
        g5 = torch.Generator().manual_seed(5)
        ccfg = dict(cfg, constraint=cname)
        tt0 = op.make(ccfg, g5)
        y_grad = op.unit({k: (v.clone().requires_grad_(True) if v.is_floating_point() and k in names else v.clone()) for k, v in tt0.items()}, ccfg).detach()
        variants = {"inputs_without_grad": lambda: op.unit({k: v.clone() for k, v in tt0.items()}, ccfg)}
        for gm_name, gm_ctx in (("no_grad", torch.no_grad), ("inference_mode", torch.inference_mode)):
            def _run(gm_ctx: Any = gm_ctx) -> Any:
                with gm_ctx():
                    return op.unit({k: v.clone() for k, v in tt0.items()}, ccfg)
            variants[gm_name] = _run
        for vn, fn_ in variants.items():
            try:
                yv = fn_()
            except Exception as e:  # noqa
                viol.append(exception_violation(e, ident + f"|{vn}"))
                continue
            if yv.shape != y_grad.shape or not torch.equal(yv.detach(), y_grad):
                viol.append({"key": ident + f"|forward_differs_without_autograd|{vn}", "msg": f"cfg={cfg}"})
        steps += 3
    if names and cname != "" and not lowp and len(deviations(op.name, dict(cfg, dtype="float64", constraint=op.coords["constraint"][0]))) <= 1 and not viol:
        g = torch.Generator().manual_seed(5)
        c1cfg = dict(cfg, constraint=cname)
        t = op.make(c1cfg, g)
        ins = [t[k].clone().requires_grad_(True) for k in names]

        def f(*xs: Any) -> Any:
            tt = dict(t)
            for k, x in zip(names, xs):
                tt[k] = x
            return op.unit(tt, c1cfg)

        try:
            ok = torch.autograd.gradcheck(f, ins, eps=1e-6, atol=1e-6, rtol=1e-5, raise_exception=False)
        except Exception as e:  # noqa
            ok = False
        steps += 1
        if not ok:
            viol.append({"key": ident + "|gradcheck", "msg": f"cfg={cfg}: finite differences disagree with autograd"})
    nontriv = bool(names) and any(abs(c0[k] - d0["s"]) > 1e-9 * abs(d0["s"]) for k in names)
    return {"violations": viol[:4], "steps": steps, "nontrivial": nontriv,
            "outcome": f"{op.name}:{cname}:{'ok' if not viol else 'bad'}"}
