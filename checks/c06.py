"""C06 — residual split/add: normalised mix, delayed branch scaling, true input gradient.

Explorer kind P: all residual structures (ordered forests of residual layers, sequential
and nested) up to a layer bound, with every (tau, branch function) assignment from the
alphabets.  Reference model: the closed form (x + tau f(x))/sqrt(1+tau^2) applied
recursively in plain float64 torch, gradients by autograd of that closed form.
"""

from __future__ import annotations

import itertools
from typing import Any, Dict, List

PROPERTY = "C06"
TAUS = [1.0, 1e-3, 0.25, 0.5, 3.0, 1e3]
FNS = ["identity", "double", "tanh", "square", "linear", "tanh_linear", "u_gelu", "zero", "inplace_double", "to_float32",
       "const", "detached", "nograd_branch"]
SUB_TAUS = [0.25, 1.0, 3.0]
SUB_FNS = ["double", "tanh", "linear"]
SHAPES = [[], [3], [2, 3], [2, 1, 4]]
RULE = (
    "case = (forest of residual layers with tau/branch labels, tensor shape, mode in "
    "{split_add, apply}); non-trivial = at least one layer with tau != 1 and a non-identity "
    "branch; every case compares output, x.grad, and the gradient seen at every branch output"
)
BOUND = {
    "quick": "all forests with <=3 layers over the 3x3 sub-alphabet (sequential+nested), every "
    "single layer over 6 taus x 8 branches x 4 shapes, uniform stacks of depth 4-8, x 2 modes",
    "thorough": "all forests with <=4 layers over the 3x3 sub-alphabet; 2-layer forests over the "
    "full 6x8 alphabet; stacks depth 4-8 over all (tau, branch)",
}
EXHAUSTIVE = {"quick": True, "thorough": True}
ASSUMPTIONS = [
    "tensor values: two seeded float64 draws per case (A1); tau on a 6-point grid in [1e-3,1e3] (A2)",
    "branch functions from an 8-element family incl. a unit-scaled op (U.gelu, default constraint)",
]


def forests(n: int) -> List[Any]:
    """All ordered forests with n nodes; a forest is a list of trees, a tree = list of children."""
    if n == 0:
        return [[]]
    out = []
    for k in range(1, n + 1):  # size of first tree
        for kids in forests(k - 1):
            for rest in forests(n - k):
                out.append([kids] + rest)
    return out


def _label(forest: Any, labels: List[Any]) -> Any:
    """Attach (tau, fn) labels to nodes in preorder."""
    it = iter(labels)

    def go(f: Any) -> Any:
        res = []
        for kids in f:
            tau, fn = next(it)
            res.append([tau, fn, go(kids)])
        return res

    return go(forest)


def cases(tier: str, seed: int) -> List[Dict[str, Any]]:
    out: List[Dict[str, Any]] = []

    def add(forest: Any, shape: List[int]) -> None:
        for mode in ("split_add", "apply"):
            out.append({"forest": forest, "shape": shape, "mode": mode, "seed": seed})

    for tau in TAUS + [None]:
        for fn in FNS:
            for shape in SHAPES:
                if not shape and "linear" in fn:
                    continue
                add([[tau, fn, []]], shape)
    # environment coordinates: autograd disabled (forward value only) and a preceding call of the
    # same program in a low-precision dtype (process history: "never varies between calls")
    for tau in TAUS + [None]:
        for fn in ("tanh", "linear", "u_gelu", "identity"):
            for gm in ("no_grad", "inference_mode"):
                for mode in ("split_add", "apply"):
                    out.append({"forest": [[tau, fn, []]], "shape": [2, 3], "mode": mode, "seed": seed, "grad_mode": gm})
                    out.append({"forest": [[tau, fn, []], [tau, "double", [[tau, fn, []]]]], "shape": [2, 3], "mode": mode,
                                "seed": seed, "grad_mode": gm})
            for pre in ("bfloat16", "float16", "float32"):
                if tier == "quick" and (tau not in (0.5, None) or fn not in ("tanh", "linear")):
                    continue  # (fresh-interpreter cases cost ~3 s each)
                out.append({"forest": [[tau, fn, []]], "shape": [2, 3], "mode": "split_add", "seed": seed, "pre_dtype": pre, "fresh": True})
                out.append({"forest": [[tau, fn, [[tau, "tanh", []]]]], "shape": [3], "mode": "apply", "seed": seed, "pre_dtype": pre, "fresh": True})
    for tau in (0.25, 1.0, 3.0, None):
        for fn in ("inplace_double", "tanh", "to_float32"):
            for mode in ("split_add", "apply"):
                out.append({"forest": [[tau, fn, []]], "shape": [2, 3], "mode": mode, "seed": seed, "grad_mode": "input_no_grad"})
                out.append({"forest": [[tau, fn, []], [tau, "tanh", [[tau, fn, []]]]], "shape": [3], "mode": mode, "seed": seed,
                            "grad_mode": "input_no_grad"})
    # the stream entering the layer does not require grad (raw data / frozen lower layers) while the branches
    # hold trainable parameters: parameter gradients against the closed form
    for tau in TAUS + [None]:
        for fn in ("linear", "tanh_linear", "const"):
            for mode in ("split_add", "apply"):
                out.append({"forest": [[tau, fn, []]], "shape": [2, 3], "mode": mode, "seed": seed, "x_no_grad": True})
                out.append({"forest": [[tau, fn, []], [tau, "tanh_linear", [[tau, fn, []]]]], "shape": [2, 3], "mode": mode, "seed": seed, "x_no_grad": True})
                out.append({"forest": [[tau, "detached", []], [tau, fn, []]], "shape": [3], "mode": mode, "seed": seed, "x_no_grad": True})
    # dtype coordinate: float16 / bfloat16 / float32 streams (one and two layers)
    for dt_ in ("float16", "bfloat16", "float32"):
        for tau in TAUS + [None]:
            for fn in ("tanh", "linear", "double", "u_gelu"):
                for mode in ("split_add", "apply"):
                    out.append({"forest": [[tau, fn, []]], "shape": [2, 3], "mode": mode, "seed": seed, "dtype": dt_})
                    if tau in (1e-3, 1e3):
                        continue  # (products of extreme branch weights underflow the half-precision range)
                    out.append({"forest": [[tau, fn, []], [tau, "tanh", [[tau, fn, []]]]], "shape": [3], "mode": mode, "seed": seed, "dtype": dt_})
    # tau given as a Python int; and a history: the same layer first evaluated under inference_mode / no_grad
    # (evaluation pass), then trained - in a fresh interpreter
    for tau in (1, 2, 3):
        for fn in ("tanh", "linear", "double"):
            for mode in ("split_add", "apply"):
                out.append({"forest": [[tau, fn, []]], "shape": [2, 3], "mode": mode, "seed": seed})
                out.append({"forest": [[tau, fn, []], [tau, "tanh", [[tau, fn, []]]]], "shape": [3], "mode": mode, "seed": seed})
    for tau in (0.5, None, 3.0):
        for pre in ("inference_mode", "no_grad"):
            for mode in ("split_add", "apply"):
                out.append({"forest": [[tau, "tanh", []], [tau, "linear", []]], "shape": [2, 3], "mode": mode, "seed": seed, "pre_mode": pre, "fresh": True})
    nmax = 3 if tier == "quick" else 4
    sub = list(itertools.product(SUB_TAUS, SUB_FNS))
    for n in range(2, nmax + 1):
        for f in forests(n):
            for labels in itertools.product(sub, repeat=n):
                add(_label(f, list(labels)), [2, 3])
    if tier == "thorough":
        full = list(itertools.product(TAUS, FNS))
        for f in forests(2):
            for labels in itertools.product(full, repeat=2):
                add(_label(f, list(labels)), [3])
    stacks = [(t, f) for t in (TAUS if tier == "thorough" else SUB_TAUS + [1e-3, 1e3])
              for f in (FNS if tier == "thorough" else ["tanh", "linear", "u_gelu", "square"])]
    for depth in range(4, 9):
        for tau, fn in stacks:
            add([[tau, fn, []] for _ in range(depth)], [2, 3])
    # nested chain of depth 4-6 (each layer inside the previous branch)
    for depth in (4, 5, 6):
        for tau, fn in [(0.5, "tanh"), (3.0, "linear"), (0.25, "double")]:
            f: Any = []
            for _ in range(depth):
                f = [[tau, fn, f]]
            add(f, [2, 3])
    return out


def _nograd(x: Any) -> Any:
    import torch

    with torch.no_grad():
        return torch.tanh(x) + 0.5


def _fn(name: str, d: int, store: Any = None) -> Any:
    """branch function; trainable branch parameters (W of the linear kinds, the constant of `const`) are
    appended to `store` so that their gradients can be compared between implementation and reference"""
    import torch
    import unit_scaling.functional as U

    W = c = None
    if "linear" in name:
        g = torch.Generator().manual_seed(77 + d)
        W = (torch.randn(d, d, dtype=torch.float64, generator=g) / max(d, 1) ** 0.5).requires_grad_(True)
        if store is not None:
            store.append(W)
    if name == "const":
        c = torch.tensor([0.75], dtype=torch.float64, requires_grad=True)
        if store is not None:
            store.append(c)
    return {
        # branches whose output is NOT connected to their input through autograd
        "const": lambda x: (c.sum() * 1.5).expand(x.shape).to(x.dtype),
        "detached": lambda x: torch.tanh(x.detach()),
        "nograd_branch": _nograd,
        "identity": lambda x: x * 1.0,
        "double": lambda x: 2 * x,
        "tanh": torch.tanh,
        "square": lambda x: x * x,
        "linear": lambda x: x @ W.to(x.dtype),  # kids of a float32 branch stay in float32
        "tanh_linear": lambda x: torch.tanh(x @ W.to(x.dtype)),
        "u_gelu": lambda x: U.gelu(x),
        "zero": lambda x: x * 0.0,
        "inplace_double": lambda x: x.mul_(2.0),  # a branch that starts with an in-place op on its argument
        "to_float32": lambda x: torch.tanh(x).to(torch.float32),  # branch in lower precision than the stream
    }[name]


def run_case(case: Dict[str, Any]) -> Dict[str, Any]:
    import torch
    import unit_scaling.functional as U
    from mc.core import derive_seed, exception_violation

    forest, shape, mode = case["forest"], case["shape"], case["mode"]
    d = shape[-1] if shape else 1
    viol: List[Dict[str, str]] = []
    nlayers = [0]

    def count(f: Any) -> int:
        return sum(1 + count(k[2]) for k in f)

    def kinds(f: Any) -> set:
        s = set()
        for tau, fn, kids in f:
            s.add((tau, fn))
            s |= kinds(kids)
        return s

    ident = f"{mode}|layers={count(forest)}|nested={int(any(k[2] for k in forest))}"
    mixed = any(fn == "to_float32" for _, fn in kinds(forest))  # float32 branch on a float64 stream
    vtol = 1e-6 if mixed else 1e-11  # the branch contribution is then only float32-accurate
    if case.get("dtype"):
        vtol = {"float16": 8e-3, "bfloat16": 6e-2, "float32": 1e-5}[case["dtype"]]
        ident += f"|dtype={case['dtype']}"
    gmode = case.get("grad_mode")
    if gmode:
        ident += f"|{gmode}"
    if case.get("x_no_grad"):
        ident += "|stream_without_grad"
    if case.get("pre_mode"):
        ident += f"|after_{case['pre_mode']}_call"
    if any(isinstance(t_, int) and not isinstance(t_, bool) for t_, _ in kinds(forest)):
        ident += "|int_tau"
    if case.get("pre_dtype"):
        ident += f"|after_{case['pre_dtype']}_call"
    steps = 0
    for draw in (0, 1):
        g = torch.Generator().manual_seed(derive_seed(case["seed"], "C06", draw) % (2**31))
        x0 = torch.randn(shape, dtype=torch.float64, generator=g)
        gout = torch.randn(shape, dtype=torch.float64, generator=g)
        if case.get("dtype"):
            # a half-precision stream: implementation and closed form both run in that dtype
            x0, gout = x0.to(getattr(torch, case["dtype"])), gout.to(getattr(torch, case["dtype"]))
        pairs: List[Any] = []  # (grad at branch output, grad at add output) holders

        store_i: List[Any] = []
        store_r: List[Any] = []

        def impl(f: Any, x: Any) -> Any:
            for tau, fname, kids in f:
                fn = _fn(fname, d, store_i)
                holder: Dict[str, Any] = {}
                pairs.append(holder)

                def branch(r: Any, fn: Any = fn, kids: Any = kids, holder: Any = holder) -> Any:
                    b = impl(kids, fn(r))
                    if b.requires_grad:
                        b.register_hook(lambda gr, h=holder: h.__setitem__("branch", gr.clone()))
                    return b

                kw = {} if tau is None else {"tau": tau}
                if mode == "apply":
                    out = U.residual_apply(branch, x, **kw)
                else:
                    r, s = U.residual_split(x, **kw)
                    out = U.residual_add(branch(r), s, **kw)
                if out.requires_grad:
                    out.register_hook(lambda gr, h=holder: h.__setitem__("out", gr.clone()))
                x = out
            return x

        factors: List[float] = []  # per branch parameter: product of the enclosing branch weights tau/sqrt(1+tau^2)

        def ref(f: Any, x: Any, wprod: float = 1.0) -> Any:
            for tau, fname, kids in f:
                t = 1.0 if tau is None else tau
                w = wprod * t / (1 + t * t) ** 0.5
                n0 = len(store_r)
                fx = (x * 2.0) if fname == "inplace_double" else _fn(fname, d, store_r)(x)
                factors.extend([w] * (len(store_r) - n0))
                b = ref(kids, fx, w)
                x = (x + t * b) / (1 + t * t) ** 0.5
            return x

        if case.get("pre_mode") and draw == 0:
            with {"inference_mode": torch.inference_mode, "no_grad": torch.no_grad}[case["pre_mode"]]():
                impl(forest, x0.clone())  # evaluation pass first
            pairs.clear()
            store_i.clear()
        if case.get("pre_dtype") and draw == 0:
            # history: the same residual structure is first used in a low-precision dtype
            try:
                dtp = getattr(torch, case["pre_dtype"])
                d_saved = d
                xp = x0.to(dtp).requires_grad_(True)

                def _fn_lp(name: str, dd: int, base: Any = _fn) -> Any:
                    f = base(name, dd)
                    return (lambda x: f(x.double()).to(dtp)) if "linear" in name else f

                impl_lp = impl
                yp = impl_lp([[t, ("tanh" if "linear" in fnm else fnm), k] for t, fnm, k in forest], xp)
                yp.backward(torch.ones_like(yp))
            except Exception:  # noqa - low precision not supported for this branch: history step skipped
                pass
            pairs.clear()
        if gmode:
            import contextlib

            ctx = {"no_grad": torch.no_grad, "inference_mode": torch.inference_mode}.get(gmode, contextlib.nullcontext)()
            xin = x0.clone()
            try:
                with ctx:
                    yi = impl(forest, xin)
            except Exception as e:  # noqa
                return {"violations": [exception_violation(e, ident)], "steps": 1, "outcome": "raises"}
            if not torch.equal(xin, x0):
                viol.append({"key": ident + "|caller_input_modified", "msg": f"forest={forest}"})
                break
            yr = ref(forest, x0.clone())
            if yi.dtype != yr.dtype:
                viol.append({"key": ident + "|output_dtype", "msg": f"forest={forest}: {yi.dtype} vs {yr.dtype} (type promotion of skip + branch)"})
                break
            sc = max(yr.abs().max().item(), 1e-300)
            if yi.shape != yr.shape or not bool(((yi - yr).abs() <= vtol * sc + 1e-12 * yr.abs()).all()):
                viol.append({"key": ident + "|forward_value", "msg": f"forest={forest}: max err {(yi - yr).abs().max().item():.3e}"})
                break
            steps += count(forest)
            continue
        xg = not case.get("x_no_grad")
        xi = x0.clone().requires_grad_(xg)
        xr = x0.clone().requires_grad_(xg)
        store_i.clear()
        store_r.clear()
        factors.clear()
        try:
            yi = impl(forest, xi)
            if yi.requires_grad:
                yi.backward(gout)
        except Exception as e:  # noqa
            return {"violations": [exception_violation(e, ident)], "steps": 1, "outcome": "raises"}
        yr = ref(forest, xr)
        if yr.requires_grad:
            yr.backward(gout)
        steps += 2 * count(forest)

        def close(a: Any, b: Any) -> bool:
            scale = max(b.abs().max().item(), 1e-300)
            return bool(((a - b).abs() <= vtol * scale + 1e-12 * b.abs()).all())

        if yi.dtype != yr.dtype:
            viol.append({"key": ident + "|output_dtype", "msg": f"forest={forest}: {yi.dtype} vs {yr.dtype}"})
        elif yi.shape != yr.shape or not close(yi.detach(), yr.detach()):
            viol.append({"key": ident + "|forward_value", "msg": f"forest={forest} shape={shape}: max err {(yi.detach()-yr.detach()).abs().max().item():.3e}"})
        if xg and (xi.grad is None or not close(xi.grad, xr.grad)):
            err = float("nan") if xi.grad is None else (xi.grad - xr.grad).abs().max().item()
            viol.append({"key": ident + "|input_gradient", "msg": f"forest={forest} shape={shape}: max err {err:.3e}"})
        # gradients of the parameters INSIDE the branches (the upstream gradient arrives unattenuated)
        if len(store_i) != len(store_r):
            viol.append({"key": ident + "|harness_parameter_mismatch", "msg": f"{len(store_i)} vs {len(store_r)}"})
        for pi_, pr_, fac in zip(store_i, store_r, factors):
            # inside a branch the gradient is the closed form's divided by the branch weights around it
            if (pi_.grad is None) != (pr_.grad is None) or (pr_.grad is not None and not close(pi_.grad * fac, pr_.grad)):
                err = float("nan") if pi_.grad is None or pr_.grad is None else (pi_.grad * fac - pr_.grad).abs().max().item()
                viol.append({"key": ident + "|branch_parameter_gradient", "msg": f"forest={forest} shape={shape}: max err {err:.3e}"})
                break
        for h in pairs:
            if mixed:
                break
            if "branch" in h and "out" in h and not torch.equal(h["branch"], h["out"]):
                viol.append({"key": ident + "|branch_gradient_attenuated", "msg": f"forest={forest}: grad at branch output != grad at residual_add output"})
                break
        if viol:
            break
    nontriv = any((t not in (None, 1.0)) and fn not in ("identity", "zero") for t, fn in kinds(forest))
    return {"violations": viol[:3], "steps": steps, "nontrivial": nontriv,
            "outcome": f"layers={count(forest)}:{'ok' if not viol else 'bad'}"}
