"""C07 — transformer residual rule balances layer contributions at every depth.

Explorer: exhaustive walk of the (depth, residual_mult, residual_attn_ratio, index) space.
Model: exact rational model of the residual scheme on squared quantities, derived from
the balance requirements (not from the library's formula).  Every model state is replayed
against the implementation (`transformer_residual_scaling_rule(m, r)(index, 2L)`), and the
implementation's own float taus are pushed through the residual recurrence in 60-digit
decimal arithmetic to check the five balance invariants directly.
"""

from __future__ import annotations

from decimal import Decimal, getcontext
from fractions import Fraction
from typing import Any, Dict, List

PROPERTY = "C07"
GRID = [(1, 16), (1, 4), (1, 2), (2, 3), (1, 1), (3, 2), (2, 1), (4, 1), (16, 1)]
DEPTHS = {"quick": 64, "thorough": 256}
WIRING = {"quick": 32, "thorough": 128}
REL = 1e-13
RULE = (
    "case = (residual_mult, residual_attn_ratio, L); states = (case, branch index) pairs; "
    "non-trivial = tau differs between attention/MLP or between indices (always for L>=1 "
    "since tau depends on index)"
)
BOUND = {
    "quick": "all L in 1..64 x 9x9 rational (mult, ratio) grid x all 2L indices; wiring L=1..32",
    "thorough": "all L in 1..256 x 9x9 rational grid x all 2L indices; wiring L=1..128",
}
EXHAUSTIVE = {"quick": True, "thorough": True}
ASSUMPTIONS = [
    "mult / ratio restricted to the 9-point rational grid in [1/16,16] (A2)",
    "balance requirements read as in the rule's docstring: per-type totals of squared "
    "contributions, sqrt((A+M)/2)/emb = mult, sqrt(A/M) = ratio",
]


def model_taus_sq(L: int, m: Fraction, r: Fraction) -> List[Fraction]:
    """Unique tau_i^2 satisfying the balance requirements (exact)."""
    E = 1 / (1 + 2 * m * m)
    b = 2 * m * m * E / (L * (1 + r * r))
    a = r * r * b
    out, acc = [], E
    for i in range(2 * L):
        w = a if i % 2 == 0 else b
        out.append(w / acc)
        acc += w
    assert acc == 1
    return out


def contributions(taus_sq: List[Any], one: Any) -> List[Any]:
    """Squared contribution of [embedding, branch0, branch1, ...] after applying
    x <- (x + tau f)/sqrt(1+tau^2) for every branch (exact in the given number type)."""
    c = [one]
    for t in taus_sq:
        d = one + t
        c = [x / d for x in c] + [t / d]
    return c


def cases(tier: str, seed: int) -> List[Dict[str, Any]]:
    out: List[Dict[str, Any]] = []
    for L in range(1, DEPTHS[tier] + 1):
        for m in GRID:
            for r in GRID:
                out.append({"kind": "rule", "L": L, "m": list(m), "r": list(r)})
    for L in range(1, WIRING[tier] + 1):
        for m, r in [((1, 2), (3, 2)), ((4, 1), (1, 4))]:
            out.append({"kind": "wiring", "L": L, "m": list(m), "r": list(r)})
    # the DEFAULT rule object is process-global state shared by all decoders: every use of it
    # lives in this single case (fixed order: ascending then descending depths), so the case
    # is deterministic whichever worker runs it, and history dependence is caught
    W = WIRING[tier]
    out.append({"kind": "wiring", "L": 1, "m": [1, 1], "r": [1, 1],
                "Ls": list(range(1, W + 1)) + list(range(W, 0, -3)), "fresh": True})
    # object history of the MODEL: dtype casts / deep copies after construction leave the taus exact
    for L in (1, 2, 3, 8):
        for m, r in [((1, 2), (3, 2)), ((4, 1), (1, 4)), ((1, 1), (1, 1))]:
            out.append({"kind": "wiring", "L": L, "m": list(m), "r": list(r), "post": ["bfloat16", "half", "float", "double", "deepcopy"],
                        "fresh": list(m) == [1, 1]})
            # checkpointing: state_dict round trips (onto itself, strict and non-strict), pickle and torch.save / load
            out.append({"kind": "wiring", "L": L, "m": list(m), "r": list(r),
                        "post": ["load_own_state", "load_own_state_nonstrict", "pickle", "torch_save", "load_own_state", "deepcopy", "load_own_state"]})
    # the decoder built with POSITIONAL arguments in the documented order (hidden, vocab, layers, heads, dropout_p, rule)
    for L in (1, 2, 5):
        for m, r in [((1, 2), (3, 2)), ((4, 1), (1, 4)), ((2, 1), (1, 4))]:
            out.append({"kind": "wiring", "L": L, "m": list(m), "r": list(r), "ctor": "positional"})
    # other constructor options of the stack (residual dropout) do not enter the taus
    for L in (1, 2, 3, 8):
        for m, r in [((1, 2), (3, 2)), ((4, 1), (1, 4))]:
            for dp in (0.1, 0.5):
                out.append({"kind": "wiring", "L": L, "m": list(m), "r": list(r), "dropout_p": dp})
    # sweep history: decoders of one depth built in a loop with TEMPORARY rule objects of different hyperparameters
    for L in (1, 2, 5):
        out.append({"kind": "sweep", "L": L, "m": [1, 1], "r": [1, 1], "fresh": True,
                    "pairs": [[[1, 2], [3, 2]], [[4, 1], [1, 4]], [[2, 1], [1, 1]], [[1, 1], [2, 1]], [[1, 4], [1, 2]], [[3, 2], [4, 1]]]})
    # history: ONE rule object queried for several depths in sequence must answer like a
    # fresh one (the default rule object is shared by every TransformerStack/Decoder)
    seqs = [[a, b, a] for a in (1, 2, 3, 5, 8) for b in (1, 2, 4, 7, 16) if a != b]
    for sq in seqs:
        for m, r in [((1, 1), (1, 1)), ((1, 2), (3, 2))]:
            out.append({"kind": "reuse", "L": sq[0], "seq": sq, "m": list(m), "r": list(r)})
    return out


def _close(x: float, y: float, rel: float = REL) -> bool:
    return abs(x - y) <= rel * max(abs(x), abs(y))


def run_case(case: Dict[str, Any]) -> Dict[str, Any]:
    import unit_scaling as uu
    from unit_scaling.core.functional import transformer_residual_scaling_rule

    L = case["L"]
    m, r = Fraction(*case["m"]), Fraction(*case["r"])
    tag = f"m={m}|r={r}|L={L}"
    viol: List[Dict[str, str]] = []
    model = model_taus_sq(L, m, r)
    if case["kind"] == "rule":
        # -- model self-check: the five invariants hold exactly for the model's taus
        c = contributions(model, Fraction(1))
        emb, attn, mlp = c[0], c[1::2], c[2::2]
        assert sum(c) == 1
        assert all(x == attn[0] for x in attn) and all(x == mlp[0] for x in mlp)
        assert sum(attn) == r * r * sum(mlp)
        assert (sum(attn) + sum(mlp)) / 2 == m * m * emb
        # -- conformance of the implementation to the model, index by index
        rule = transformer_residual_scaling_rule(float(m), float(r))
        impl = [rule(i, 2 * L) for i in range(2 * L)]
        for i, (t, tm) in enumerate(zip(impl, model)):
            if not (t > 0 and _close(t * t, float(tm))):
                viol.append(
                    {
                        "key": f"rule|tau_mismatch|parity={i % 2}",
                        "msg": f"{tag} index={i}: tau^2={t * t!r} model={float(tm)!r}",
                    }
                )
                break
        # -- invariants evaluated directly on the implementation's float taus
        getcontext().prec = 60
        cd = contributions([Decimal(t) * Decimal(t) for t in impl], Decimal(1))
        emb_d, attn_d, mlp_d = cd[0], cd[1::2], cd[2::2]
        A, M = sum(attn_d), sum(mlp_d)
        checks = {
            "sum_to_one": _close(float(sum(cd)), 1.0, 1e-12),
            "attn_equal": all(_close(float(x), float(attn_d[0]), 1e-11) for x in attn_d),
            "mlp_equal": all(_close(float(x), float(mlp_d[0]), 1e-11) for x in mlp_d),
            "attn_mlp_ratio": _close(float(A / M), float(r * r), 1e-11),
            "mult": _close(float((A + M) / 2 / emb_d), float(m * m), 1e-11),
        }
        for name, ok in checks.items():
            if not ok:
                viol.append(
                    {"key": f"rule|invariant={name}", "msg": f"{tag}: invariant {name} fails"}
                )
        return {
            "violations": viol,
            "steps": 2 * L,
            "outcome": "balanced" if not viol else "unbalanced",
            "nontrivial": len({round(t, 12) for t in impl}) > 1,
        }
    if case["kind"] == "reuse":
        rule = transformer_residual_scaling_rule(float(m), float(r))
        steps = 0
        for pos, Lq in enumerate(case["seq"]):
            mod = model_taus_sq(Lq, m, r)
            order = range(2 * Lq) if pos % 2 == 0 else reversed(range(2 * Lq))
            for i in order:
                t = rule(i, 2 * Lq)
                steps += 1
                if not _close(t * t, float(mod[i])):
                    viol.append({"key": "reuse|tau_depends_on_history", "msg":
                                 f"{tag} seq={case['seq']} query#{pos} L={Lq} index={i}: tau^2={t*t!r} model={float(mod[i])!r}"})
                    break
            if viol:
                break
        return {"violations": viol, "steps": steps, "outcome": "reuse_ok" if not viol else "reuse_bad"}
    if case["kind"] == "sweep":
        import gc

        import torch

        steps = 0
        for rep in range(2):
            for mp, rp in case["pairs"]:
                mm, rr = Fraction(*mp), Fraction(*rp)
                dec = uu.TransformerDecoder(hidden_size=8, vocab_size=5, layers=L, heads=1,
                                            residual_scaling=uu.transformer_residual_scaling_rule(float(mm), float(rr)))
                model = model_taus_sq(L, mm, rr)
                for i, layer in enumerate(dec.layers):
                    for nm, idx in (("mhsa_tau", 2 * i), ("mlp_tau", 2 * i + 1)):
                        t = getattr(layer, nm)
                        steps += 1
                        if not _close(t * t, float(model[idx])):
                            viol.append({"key": f"sweep|{nm}|stale_or_wrong_tau", "msg":
                                         f"L={L} mult={mm} ratio={rr} (pass {rep}) layer={i}: {nm}^2={t * t!r} model={float(model[idx])!r}"})
                del dec
                gc.collect()
                if viol:
                    break
            if viol:
                break
        return {"violations": viol[:2], "steps": steps, "outcome": "sweep_ok" if not viol else "sweep_bad"}
    # ---- wiring: TransformerDecoder assigns tau(2i), tau(2i+1) of 2L to layer i
    import torch

    torch.manual_seed(0)
    default = case["m"] == [1, 1] and case["r"] == [1, 1]
    kw = {} if default else {
        "residual_scaling": uu.transformer_residual_scaling_rule(float(m), float(r))
    }
    steps = 0
    for L in case.get("Ls", [L]):
        model = model_taus_sq(L, m, r)
        tag = f"m={m}|r={r}|L={L}"
        if case.get("dropout_p"):
            kw = dict(kw, dropout_p=case["dropout_p"])
            tag += f"|dropout_p={case['dropout_p']}"
        if case.get("ctor") == "positional":
            tag += "|positional"
            dec = uu.TransformerDecoder(8, 5, L, 1, 0.0, kw["residual_scaling"])
        else:
            dec = uu.TransformerDecoder(hidden_size=8, vocab_size=5, layers=L, heads=1, **kw)
        steps += 2 * L
        if len(dec.layers) != L:
            viol.append({"key": "wiring|layer_count", "msg": f"{tag}: {len(dec.layers)} layers"})
        for i, layer in enumerate(dec.layers):
            for nm, idx in (("mhsa_tau", 2 * i), ("mlp_tau", 2 * i + 1)):
                t = getattr(layer, nm)
                if not _close(t * t, float(model[idx])):
                    viol.append(
                        {
                            "key": f"wiring|{nm}|{'default_rule' if default else 'custom_rule'}",
                            "msg": f"{tag} layer={i}: {nm}^2={t * t!r} model={float(model[idx])!r}",
                        }
                    )
                    break
            if viol:
                break
        for step_ in case.get("post", []):
            import copy

            if viol:
                break
            def _load_own(d_: Any, strict: bool = True) -> Any:
                d_.load_state_dict(copy.deepcopy(d_.state_dict()), strict=strict)
                return d_

            def _torch_save(d_: Any) -> Any:
                import io

                buf = io.BytesIO()
                torch.save(d_, buf)
                buf.seek(0)
                return torch.load(buf, weights_only=False)

            import pickle as _pickle

            dec = {"load_own_state": _load_own, "load_own_state_nonstrict": lambda d_: _load_own(d_, False),
                   "pickle": lambda d_: _pickle.loads(_pickle.dumps(d_)), "torch_save": _torch_save,
                   "bfloat16": lambda d_: d_.to(torch.bfloat16), "half": lambda d_: d_.half(), "float": lambda d_: d_.float(),
                   "double": lambda d_: d_.double(), "deepcopy": copy.deepcopy}[step_](dec)
            for i, layer in enumerate(dec.layers):
                for nm, idx in (("mhsa_tau", 2 * i), ("mlp_tau", 2 * i + 1)):
                    t = float(getattr(layer, nm))
                    steps += 1
                    if not _close(t * t, float(model[idx])):
                        viol.append({"key": f"wiring|{nm}|changed_by_model_history", "msg":
                                     f"{tag} after {step_}: layer={i} {nm}^2={t * t!r} model={float(model[idx])!r}"})
                        break
                if viol:
                    break
        if viol:
            break
    return {"violations": viol[:3], "steps": steps, "outcome": "wired" if not viol else "miswired"}
