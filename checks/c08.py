"""C08 — modules equal their functional form, honour every option, start unit-scaled.

Explorer kind L: per module the FULL PRODUCT of small constructor-option domains x
train/eval x input shapes.  Oracles: (a) functional call with the module's own parameters
and the options PASSED TO THE CONSTRUCTOR (not read back from the module); (b) the
same-named torch.nn twin on the same state_dict (shape, proportionality); (c) rejected
options raise; (d) fresh-construction statistics; (e) mup tags / depth containers;
composite modules: behavioural invariants + spies on the functional calls they make.
"""

from __future__ import annotations

import itertools
from typing import Any, Dict, List
from unittest import mock

PROPERTY = "C08"
RULE = (
    "case = (module class, constructor options, train/eval, input shape) full product per "
    "class; or an init/tag/depth/reject/composite case; non-trivial = some option deviates "
    "from its default"
)
BOUND = {
    "quick": "full product of constructor-option domains for the 11 simple modules (e.g. Conv1d: "
    "k{1,3} x stride{1,2} x padding{0,1,2} x 4 padding modes x dilation{1,2} x groups{1,2} x bias x 7 "
    "constraints) x train/eval x 2 input shapes; composites: MLP, MHSA, TransformerLayer, "
    "TransformerDecoder option products with behavioural oracles",
    "thorough": "adds more input shapes and sizes",
}
EXHAUSTIVE = {"quick": True, "thorough": True}
ASSUMPTIONS = [
    "one seeded value draw per configuration (data independence is C01/C02)",
    "composite modules are checked through the public functional calls they make (spied) and "
    "behavioural invariants (causality, eval determinism, parameter shapes), not against a "
    "re-implementation of their tensor layout",
    "init statistics: 7-sigma window of the sampling error (false-alarm probability < 1e-11 per seed)",
]
BIN = ["to_output_scale", None, "gmean", "hmean", "amean", "to_grad_input_scale", ""]


def _prod(d: Dict[str, List[Any]]) -> List[Dict[str, Any]]:
    keys = list(d)
    return [dict(zip(keys, v)) for v in itertools.product(*[d[k] for k in keys])]


SIMPLE: Dict[str, Dict[str, List[Any]]] = {
    "GELU": {"mult": [1.0, 0.25, 3.0], "constraint": BIN, "approximate": ["none", "tanh"]},
    "SiLU": {"mult": [1.0, 0.25, 3.0], "constraint": BIN},
    "Softmax": {"dim": [-1, 0, 1], "mult": [1.0, 0.25, 3.0], "constraint": BIN},
    "Dropout": {"p": [0.5, 0.0, 0.1]},
    "Linear": {"fin": [5, 1], "fout": [3, 8], "bias": [False, True], "constraint": BIN},
    "LinearReadout": {"fin": [5, 1], "fout": [3, 8], "bias": [False, True],
                      "constraint": [None, "to_output_scale", "gmean", "hmean", "amean", "to_grad_input_scale", ""]},
    "Conv1d": {"cin": [4], "cout": [2], "k": [3, 1], "stride": [1, 2], "padding": [0, 1, 2],
               "padding_mode": ["zeros", "circular", "reflect", "replicate"], "dilation": [1, 2],
               "groups": [1, 2], "bias": [False, True], "constraint": BIN},
    "LayerNorm": {"n": [5, 8], "nd": [1, 2], "eps": [1e-5, 1e-2], "elementwise_affine": [False, True],
                  "bias": [True, False]},
    "RMSNorm": {"n": [5, 8], "nd": [1, 2], "eps": [1e-5, 1e-2], "elementwise_affine": [False, True]},
    "Embedding": {"V": [6, 11], "D": [3, 5], "padding_idx": [None, 0, -1], "max_norm": [None, 1.0],
                  "norm_type": [2.0, 1.0], "_freeze": [False, True]},
    "CrossEntropyLoss": {"mult": [1.0, 0.25, 3.0], "ignore_index": [-100, 1], "ignore": ["none", "some"],
                         "reduction": ["mean", "sum"], "N": [4, None]},
}
REJECT = [
    ("SiLU", {"inplace": True}), ("Dropout", {"inplace": True}),
    ("Embedding", {"scale_grad_by_freq": True}), ("Embedding", {"sparse": True}),
    ("CrossEntropyLoss", {"weight": "TENSOR"}), ("CrossEntropyLoss", {"size_average": False}),
    ("CrossEntropyLoss", {"reduce": False}), ("CrossEntropyLoss", {"label_smoothing": 0.1}),
    ("CrossEntropyLoss", {"reduction": "none"}),
]


def cases(tier: str, seed: int) -> List[Dict[str, Any]]:
    out: List[Dict[str, Any]] = []
    shapes = [[2], [2, 3]] if tier == "quick" else [[2], [], [2, 3], [1, 2, 3]]
    for cls, dom in SIMPLE.items():
        for opt in _prod(dom):
            for train in (True, False):
                if cls not in ("Dropout",) and not train and cls != "Embedding":
                    # eval mode only matters for modules with mode-dependent behaviour; still run
                    # one eval configuration per option set for the others at the first shape
                    pass
                for bi, batch in enumerate(shapes):
                    if not train and bi > 0:
                        continue
                    out.append({"kind": "simple", "cls": cls, "opt": opt, "train": train, "batch": batch, "seed": seed})
    # object-history / constructor-form coordinates on every option set with at most one deviation: the module
    # is deep-copied / pickled / rebuilt from its state_dict / converted float32 -> float64 after construction /
    # built with positional constructor arguments (documented order) / given its shape as a bare int
    for cls, dom in SIMPLE.items():
        for opt in _prod(dom):
            if sum(opt[k] != v[0] for k, v in dom.items()) > 1:
                continue
            for post in ("deepcopy", "pickle", "state_dict", "double", "positional", "shape_int"):
                if post == "shape_int" and (cls not in ("LayerNorm", "RMSNorm") or opt["nd"] != 1):
                    continue
                out.append({"kind": "simple", "cls": cls, "opt": opt, "train": True, "batch": [2, 3], "seed": seed, "post": post})
    for cls, kw in REJECT:
        out.append({"kind": "reject", "cls": cls, "kw": kw})
    for cls in ["Linear", "LinearReadout", "Conv1d", "LayerNorm", "RMSNorm", "Embedding", "MLP", "MHSA",
                "TransformerLayer", "TransformerDecoder"]:
        out.append({"kind": "init", "cls": cls, "seed": seed})
    for form in ("DepthModuleList", "DepthSequential", "DepthSequential_dict", "TransformerStack"):
        for n in (1, 2, 5):
            out.append({"kind": "depth", "form": form, "n": n})
            if form != "TransformerStack":
                for hist in ("clones", "clones_copy", "clones_copy_copy", "copy_copy"):
                    out.append({"kind": "depth", "form": form, "n": n, "history": hist})
            if form != "TransformerStack":
                out.append({"kind": "depth", "form": form, "n": n, "frozen": True})
            if form == "DepthModuleList":
                # any Iterable[nn.Module] is a valid argument (as for nn.ModuleList): one-shot iterators included
                for cont in ("generator", "tuple", "iter", "map"):
                    out.append({"kind": "depth", "form": form, "n": n, "container": cont})
    for opt in _prod({"hidden": [8], "heads": [1, 2, 4], "is_causal": [False, True], "dropout_p": [0.0, 0.5],
                      "mult": [1.0, 0.25, 3.0], "train": [True, False]}):
        out.append({"kind": "mhsa", "opt": opt, "seed": seed})
    for opt in _prod({"hidden": [4, 8], "expansion_factor": [4, 1, 2], "train": [True, False]}):
        out.append({"kind": "mlp", "opt": opt, "seed": seed})
    for opt in _prod({"heads": [1, 2], "mhsa_tau": [0.5, 1.0, 0.2], "mlp_tau": [0.5, 3.0], "is_causal": [True, False],
                      "dropout_p": [0.0, 0.5], "train": [True, False]}):
        out.append({"kind": "layer", "opt": opt, "seed": seed})
    for opt in _prod({"layers": [1, 2, 3], "heads": [1, 2], "dropout_p": [0.0, 0.5], "train": [True, False]}):
        out.append({"kind": "decoder", "opt": opt, "seed": seed})
    return out


# --------------------------------------------------------------------------- simple modules
def _build_simple(cls: str, o: Dict[str, Any]) -> Any:
    """(unit module, torch twin or None, op name, op cfg, extra) from constructor options."""
    import torch
    import unit_scaling as uu
    from torch import nn

    dt = torch.float64
    if cls == "GELU":
        return uu.GELU(mult=o["mult"], constraint=o["constraint"], approximate=o["approximate"]), \
            nn.GELU(approximate=o["approximate"]), "gelu", dict(o)
    if cls == "SiLU":
        return uu.SiLU(mult=o["mult"], constraint=o["constraint"]), nn.SiLU(), "silu", dict(o)
    if cls == "Softmax":
        return uu.Softmax(dim=o["dim"], mult=o["mult"], constraint=o["constraint"]), nn.Softmax(dim=o["dim"]), \
            "softmax", dict(o, sm_dtype=None)
    if cls == "Dropout":
        return uu.Dropout(p=o["p"]), nn.Dropout(p=o["p"]), "dropout", dict(o)
    if cls in ("Linear", "LinearReadout"):
        C = getattr(uu, cls)
        m = C(o["fin"], o["fout"], bias=o["bias"], constraint=o["constraint"], dtype=dt)
        return m, nn.Linear(o["fin"], o["fout"], bias=o["bias"], dtype=dt), \
            "linear" if cls == "Linear" else "linear_readout", dict(o)
    if cls == "Conv1d":
        m = uu.Conv1d(o["cin"], o["cout"], o["k"], stride=o["stride"], padding=o["padding"], dilation=o["dilation"],
                      groups=o["groups"], bias=o["bias"], padding_mode=o["padding_mode"], constraint=o["constraint"], dtype=dt)
        tw = nn.Conv1d(o["cin"], o["cout"], o["k"], stride=o["stride"], padding=o["padding"], dilation=o["dilation"],
                       groups=o["groups"], bias=o["bias"], padding_mode=o["padding_mode"], dtype=dt)
        return m, tw, "conv1d", dict(o, L=9)
    if cls == "LayerNorm":
        ns = [o["n"]] if o["nd"] == 1 else [2, o["n"]]
        m = uu.LayerNorm(ns, eps=o["eps"], elementwise_affine=o["elementwise_affine"], bias=o["bias"], dtype=dt)
        tw = nn.LayerNorm(ns, eps=o["eps"], elementwise_affine=o["elementwise_affine"], bias=o["bias"], dtype=dt)
        return m, tw, "layer_norm", dict(o, weight=o["elementwise_affine"], bias=o["elementwise_affine"] and o["bias"])
    if cls == "RMSNorm":
        ns = (o["n"],) if o["nd"] == 1 else (2, o["n"])
        m = uu.RMSNorm(ns, eps=o["eps"], elementwise_affine=o["elementwise_affine"]).to(dt)
        tw = nn.RMSNorm(list(ns), eps=o["eps"], elementwise_affine=o["elementwise_affine"], dtype=dt)
        return m, tw, "rms_norm", dict(o, weight=o["elementwise_affine"])
    if cls == "Embedding":
        m = uu.Embedding(o["V"], o["D"], padding_idx=o["padding_idx"], max_norm=o["max_norm"], norm_type=o["norm_type"],
                         _freeze=o["_freeze"], dtype=dt)
        tw = nn.Embedding(o["V"], o["D"], padding_idx=o["padding_idx"], max_norm=o["max_norm"], norm_type=o["norm_type"],
                          _freeze=o["_freeze"], dtype=dt)
        return m, tw, "embedding", dict(o, n=4)
    if cls == "CrossEntropyLoss":
        m = uu.CrossEntropyLoss(mult=o["mult"], ignore_index=o["ignore_index"], reduction=o["reduction"])
        tw = nn.CrossEntropyLoss(ignore_index=o["ignore_index"], reduction=o["reduction"])
        return m, tw, "cross_entropy", dict(o, V=5, target_kind="index")
    raise AssertionError(cls)


class _Pos:
    def __init__(self, m: Any) -> None:
        self.m = m

    def load_state_dict_from(self, src: Any) -> Any:
        self.m.load_state_dict(src.state_dict())
        return self.m


def _build_positional(cls: str, o: Dict[str, Any], shape_int: bool) -> Any:
    """the same module built with POSITIONAL constructor arguments in the documented order (pinned tree)"""
    import torch
    import unit_scaling as uu

    dt = torch.float64
    if cls == "GELU":
        return _Pos(uu.GELU(o["mult"], o["constraint"], o["approximate"]))
    if cls == "SiLU":
        return _Pos(uu.SiLU(o["mult"], o["constraint"], False))
    if cls == "Softmax":
        return _Pos(uu.Softmax(o["dim"], o["mult"], o["constraint"]))
    if cls == "Dropout":
        return _Pos(uu.Dropout(o["p"], False))
    if cls in ("Linear", "LinearReadout"):
        return _Pos(getattr(uu, cls)(o["fin"], o["fout"], o["bias"], None, dt, o["constraint"]))
    if cls == "Conv1d":
        return _Pos(uu.Conv1d(o["cin"], o["cout"], o["k"], o["stride"], o["padding"], o["dilation"], o["groups"], o["bias"],
                              o["padding_mode"], None, dt, o["constraint"]))
    if cls == "LayerNorm":
        ns: Any = o["n"] if shape_int else ([o["n"]] if o["nd"] == 1 else [2, o["n"]])
        return _Pos(uu.LayerNorm(ns, o["eps"], o["elementwise_affine"], o["bias"], None, dt))
    if cls == "RMSNorm":
        ns = o["n"] if shape_int else ((o["n"],) if o["nd"] == 1 else (2, o["n"]))
        return _Pos(uu.RMSNorm(ns, o["eps"], o["elementwise_affine"]).to(dt))
    if cls == "Embedding":
        return _Pos(uu.Embedding(o["V"], o["D"], o["padding_idx"], o["max_norm"], o["norm_type"], False, False, None, o["_freeze"], None, dt))
    if cls == "CrossEntropyLoss":
        return _Pos(uu.CrossEntropyLoss(o["mult"], None, None, o["ignore_index"], None, o["reduction"]))
    raise AssertionError(cls)


def _simple(case: Dict[str, Any]) -> Dict[str, Any]:
    import torch
    from mc.core import derive_seed, exception_violation
    from models.ops import OPS, default_cfg
    from models.probe import fit

    cls, o, train, batch = case["cls"], case["opt"], case["train"], case["batch"]
    dev = [k for k, v in SIMPLE[cls].items() if o[k] != v[0]]
    ident = f"{cls}|{'train' if train else 'eval'}|dev={'+'.join(dev) or 'none'}"
    viol: List[Dict[str, str]] = []
    torch.manual_seed(derive_seed(case["seed"], "C08", cls) % (2**31))
    post = case.get("post")
    if post:
        ident += f"|{post}"
    try:
        m, twin, opname, ocfg = _build_simple(cls, o)
        if post == "deepcopy":
            import copy

            m = copy.deepcopy(copy.deepcopy(m))
        elif post == "pickle":
            import pickle

            m = pickle.loads(pickle.dumps(m))
        elif post == "state_dict":
            m2, _, _, _ = _build_simple(cls, o)
            m2.load_state_dict(m.state_dict())
            m = m2
        elif post == "double":
            m = m.float().double()
        elif post in ("positional", "shape_int"):
            m = _build_positional(cls, o, post == "shape_int").load_state_dict_from(m)
    except Exception as e:  # noqa
        try:
            # the torch twin decides validity of the option set
            import torch.nn as nn  # noqa
            _ = None
        finally:
            pass
        return {"violations": [exception_violation(e, ident + "|construct")], "outcome": "raises"}
    from unit_scaling.parameter import has_parameter_data

    if cls == "Embedding" and o.get("padding_idx") is not None and post in (None, "deepcopy", "pickle", "positional"):
        # a freshly constructed embedding starts with a zero padding vector, like its torch.nn twin
        row = m.weight.detach()[o["padding_idx"]]
        if bool((row != 0).any()):
            viol.append({"key": ident + "|fresh_padding_row_not_zero", "msg": f"options={o}: weight[{o['padding_idx']}] = {row.tolist()}"})
    for pname, prm in m.named_parameters():
        want_tag = {"weight": "norm" if cls in ("LayerNorm", "RMSNorm") else ("output" if cls == "LinearReadout" else "weight"),
                    "bias": "bias"}.get(pname)
        if not has_parameter_data(prm) or (want_tag and prm.mup_type != want_tag):
            viol.append({"key": ident + f"|parameter_tag|{pname}",
                         "msg": f"options={o}: {pname} has mup_type={getattr(prm, 'mup_type', None)!r}, expected {want_tag!r}"})
    if twin is not None:
        # trainability of every parameter as in the torch.nn twin built with the same options
        tp, mp = dict(twin.named_parameters()), dict(m.named_parameters())
        for k in tp:
            if k in mp and tp[k].requires_grad != mp[k].requires_grad:
                viol.append({"key": ident + f"|requires_grad_differs_from_torch_twin|{k}",
                             "msg": f"options={o}: {k}.requires_grad={mp[k].requires_grad}, nn.{cls}: {tp[k].requires_grad}"})
    op = OPS[opname]
    cfg = dict(default_cfg(op), dtype="float64")
    cfg.update({k: v for k, v in ocfg.items() if k in op.coords})
    if "batch" in op.coords:
        cfg["batch"] = batch if opname != "conv1d" else batch[:1]
    if opname == "cross_entropy" and cfg["N"] is None and cfg["ignore"] == "some":
        return {"skipped": "no partial ignore for a single target"}
    if not op.valid(cfg):
        return {"skipped": "invalid option combination"}
    m.train(train)
    g = torch.Generator().manual_seed(derive_seed(case["seed"], "C08in", cls, repr(batch)) % (2**31))
    t = op.make(cfg, g)
    # the module's own parameters replace the drawn ones
    params = dict(m.named_parameters())
    for k in ("weight", "bias"):
        if k in params:
            t[k] = params[k]
        elif k in t and k not in ("target",):
            t.pop(k)
    if opname == "embedding":
        with torch.no_grad():
            params["weight"].mul_(1.0)  # keep (padding row stays zero)
    call_in = {k: v.clone().requires_grad_(True) if (v.is_floating_point() and k not in ("weight", "bias", "attn_mask"))
               else v for k, v in t.items()}
    fcfg = dict(cfg)
    if opname == "dropout":
        fcfg["training"] = train
    if opname == "conv1d" and o["padding_mode"] != "zeros":
        # functional form for non-zero padding modes: explicit F.pad then conv with padding 0
        import torch.nn.functional as F

        pad = o["padding"]
        fx = dict(call_in)
        fx["input"] = F.pad(call_in["input"], (pad, pad), mode=o["padding_mode"]) if pad else call_in["input"]
        fcfg = dict(fcfg, padding=0)
    else:
        fx = call_in
    first = "input"
    args = [call_in["input"]] + ([call_in["target"]] if opname == "cross_entropy" else [])
    try:
        torch.manual_seed(7)
        ref_twin = None
        try:
            if twin is not None:
                twin.load_state_dict(m.state_dict())
                twin.train(train)
                torch.manual_seed(7)
                mlt = o.get("mult", 1.0)
                targs = [a.detach() for a in args]
                if mlt != 1.0 and cls in ("GELU", "SiLU", "Softmax", "CrossEntropyLoss"):
                    # the documented temperature: applied to the twin's input (and divided out for the activations)
                    targs[0] = targs[0] * mlt
                    ref_twin = twin(*targs)
                    if cls in ("GELU", "SiLU"):
                        ref_twin = ref_twin / mlt
                else:
                    ref_twin = twin(*targs)
        except Exception as e_tw:  # noqa
            # (never happens on a correct tree: the twin is built from the same options and given the module's own
            # state_dict - a mismatch means the module's parameters are not those of the configured layer)
            return {"violations": [{"key": ident + "|state_dict_or_input_rejected_by_torch_twin", "msg":
                                    f"options={o}: nn.{cls} built with the same options rejects the module's state_dict / input: "
                                    f"{type(e_tw).__name__}: {str(e_tw)[:300]}"}], "outcome": "twin_rejects"}
        torch.manual_seed(7)
        ym = m(*args)
    except Exception as e:  # noqa
        return {"violations": [exception_violation(e, ident + "|forward")], "outcome": "raises"}
    torch.manual_seed(7)
    try:
        yf = op.unit(fx, fcfg)
    except Exception as e:  # noqa
        return {"violations": [{"key": ident + "|functional_form_rejects_what_the_module_accepts", "msg":
                                f"options={o}: {type(e).__name__}: {str(e)[:300]}"}], "outcome": "functional_rejects"}
    if ym.shape != yf.shape or not torch.allclose(ym, yf, rtol=1e-12, atol=1e-14):
        viol.append({"key": ident + "|differs_from_functional", "msg": f"options={o} batch={batch}: module {tuple(ym.shape)} vs functional {tuple(yf.shape)}; "
                     f"max err {(ym - yf).abs().max().item() if ym.shape == yf.shape else 'n/a'}"})
    elif ym.requires_grad:
        up = torch.randn(ym.shape, dtype=ym.dtype, generator=g)
        leaves = [v for v in call_in.values() if isinstance(v, torch.Tensor) and v.requires_grad]
        names = [k for k, v in call_in.items() if isinstance(v, torch.Tensor) and v.requires_grad]
        gm = torch.autograd.grad(ym, leaves, up, retain_graph=True, allow_unused=True)
        gf = torch.autograd.grad(yf, leaves, up, retain_graph=True, allow_unused=True)
        for nm, a, b in zip(names, gm, gf):
            if (a is None) != (b is None) or (a is not None and not torch.allclose(a, b, rtol=1e-12, atol=1e-14)):
                viol.append({"key": ident + f"|grad_differs_from_functional|{nm}", "msg": f"options={o} batch={batch}"})
    if ref_twin is not None:
        if tuple(ref_twin.shape) != tuple(ym.shape):
            viol.append({"key": ident + "|shape_differs_from_torch_twin", "msg": f"options={o}: {tuple(ym.shape)} vs nn.{cls} {tuple(ref_twin.shape)}"})
        elif o.get("mult", 1.0) == 1.0 or cls in ("GELU", "SiLU", "Softmax", "CrossEntropyLoss"):
            s, res = fit(ym, ref_twin)
            if s is not None and torch.isfinite(ref_twin).all() and (res > 2e-5 or s <= 0):
                viol.append({"key": ident + "|not_proportional_to_torch_twin", "msg": f"options={o}: s={s!r} residual={res:.3e}"})
            elif s is not None and torch.isfinite(ref_twin).all() and op.exact_one and abs(s - 1) > 2e-5:
                viol.append({"key": ident + "|differs_from_torch_twin", "msg": f"options={o}: {cls} output = {s!r} x nn.{cls} output (must be equal)"})
    return {"violations": viol[:4], "steps": 3, "nontrivial": bool(dev), "outcome": f"{cls}:{'ok' if not viol else 'bad'}"}


# --------------------------------------------------------------------------- other kinds
def _tags_ok(m: Any, expect: Dict[str, str], viol: List[Dict[str, str]], ident: str, depth: Any = "any") -> None:
    from unit_scaling.parameter import has_parameter_data

    for name, p in m.named_parameters():
        if not has_parameter_data(p):
            viol.append({"key": ident + "|untagged_parameter", "msg": name})
            continue
        want = None
        for suffix, tag in expect.items():
            if name.endswith(suffix):
                want = tag
        if want is not None and p.mup_type != want:
            viol.append({"key": ident + f"|wrong_tag|{want}", "msg": f"{name}: {p.mup_type}"})
        if depth != "any" and p.mup_scaling_depth != depth:
            viol.append({"key": ident + "|wrong_depth", "msg": f"{name}: {p.mup_scaling_depth} != {depth}"})


def _init(case: Dict[str, Any]) -> Dict[str, Any]:
    import torch
    import unit_scaling as uu
    from mc.core import derive_seed

    cls = case["cls"]
    viol: List[Dict[str, str]] = []
    torch.manual_seed(derive_seed(case["seed"], "C08init", cls) % (2**31))
    ident = f"{cls}|init"
    mods = {
        "Linear": lambda: uu.Linear(128, 128, bias=True),
        "LinearReadout": lambda: uu.LinearReadout(128, 128, bias=True),
        "Conv1d": lambda: uu.Conv1d(64, 64, 4, bias=True),
        "LayerNorm": lambda: uu.LayerNorm(64, elementwise_affine=True),
        "RMSNorm": lambda: uu.RMSNorm(64, elementwise_affine=True),
        "Embedding": lambda: uu.Embedding(128, 128),
        "MLP": lambda: uu.MLP(64),
        "MHSA": lambda: uu.MHSA(64, 4, is_causal=True),
        "TransformerLayer": lambda: uu.TransformerLayer(64, 4, 0.5, 0.5, True),
        "TransformerDecoder": lambda: uu.TransformerDecoder(64, 128, 2, 4),
    }
    m = mods[cls]()
    expect = {"bias": "bias"}
    n = 0
    for name, p in m.named_parameters():
        n += 1
        leaf = name.split(".")[-1]
        owner = m.get_submodule(".".join(name.split(".")[:-1])) if "." in name else m
        if isinstance(owner, (uu.LayerNorm, uu.RMSNorm)):
            want_tag = "norm" if leaf == "weight" else "bias"
            want_val = 1.0 if leaf == "weight" else 0.0
            if not bool((p == want_val).all()):
                viol.append({"key": ident + "|norm_param_not_initialised", "msg": f"{name}"})
        elif leaf == "bias":
            want_tag = "bias"
            if not bool((p == 0).all()):
                viol.append({"key": ident + "|bias_not_zero", "msg": f"{name}"})
        else:
            want_tag = "output" if isinstance(owner, uu.LinearReadout) else "weight"
            N = p.numel()
            sd, mean = p.std().item(), p.mean().item()
            if abs(sd - 1) > 7 / (2 * N) ** 0.5 or abs(mean) > 7 / N**0.5:
                viol.append({"key": ident + "|weight_not_unit_normal", "msg": f"{name}: mean={mean:.4f} std={sd:.4f} N={N}"})
        if getattr(p, "mup_type", None) != want_tag:
            viol.append({"key": ident + f"|wrong_tag|{want_tag}", "msg": f"{name}: {getattr(p, 'mup_type', None)}"})
    return {"violations": viol[:4], "steps": n, "outcome": "init"}


def _depth(case: Dict[str, Any]) -> Dict[str, Any]:
    import collections

    import torch
    import unit_scaling as uu

    form, n = case["form"], case["n"]
    viol: List[Dict[str, str]] = []
    ident = f"{form}|depth"
    mods = [uu.Linear(3, 3, bias=True) for _ in range(n)]
    hist = case.get("history", "")
    if hist.startswith("clones"):
        import copy

        proto = uu.Linear(3, 3, bias=True)
        mods = [copy.deepcopy(proto) for _ in range(n)]  # the standard clone idiom
        ident += f"|{hist}"
    elif hist:
        ident += f"|{hist}"
    frozen = bool(case.get("frozen"))
    if frozen:
        ident += "|frozen_layer"
        for p_ in mods[0].parameters():  # a layer frozen BEFORE the container is built
            p_.requires_grad_(False)
    if form == "DepthModuleList":
        cont = case.get("container", "list")
        if cont != "list":
            ident += f"|from_{cont}"
        arg: Any = {"list": lambda: mods, "generator": lambda: (m for m in mods), "tuple": lambda: tuple(mods),
                    "iter": lambda: iter(mods), "map": lambda: map(lambda m: m, mods)}[cont]()
        c: Any = uu.DepthModuleList(arg)
        if [id(m) for m in c] != [id(m) for m in mods]:
            viol.append({"key": ident + "|layers_lost_or_reordered", "msg": f"{len(c)} layers registered for {n} given (nn.ModuleList keeps all)"})
    elif form == "DepthSequential":
        c = uu.DepthSequential(*mods)
    elif form == "DepthSequential_dict":
        c = uu.DepthSequential(collections.OrderedDict((f"m{i}", m) for i, m in enumerate(mods)))
    else:
        from unit_scaling._modules import TransformerStack

        c = TransformerStack(layers=n, hidden_size=4, heads=1, is_causal=True)
    if hist:
        import copy

        for _ in range(hist.count("copy")):
            c = copy.deepcopy(c)  # snapshot / EMA copy of the whole container
        ids = [id(p_) for p_ in c.parameters()]
        if len(set(ids)) != 2 * n:
            viol.append({"key": ident + "|copied_layers_share_parameters", "msg": f"{len(set(ids))} distinct parameters for {n} layers"})
    if len(c) != n:
        viol.append({"key": ident + "|length", "msg": f"{len(c)} != {n}"})
    cnt = 0
    for name, p in c.named_parameters():
        cnt += 1
        if getattr(p, "mup_scaling_depth", "missing") != n:
            viol.append({"key": ident + "|depth_not_recorded", "msg": f"{name}: {getattr(p, 'mup_scaling_depth', 'missing')} != {n}"})
            break
    # refuse untagged parameters
    if form != "TransformerStack":
        bad = [uu.Linear(3, 3), torch.nn.Linear(3, 3)]
        if frozen:
            for p_ in bad[1].parameters():
                p_.requires_grad_(False)
        try:
            if form == "DepthModuleList":
                uu.DepthModuleList(bad)
            elif form == "DepthSequential":
                uu.DepthSequential(*bad)
            else:
                uu.DepthSequential(collections.OrderedDict((f"m{i}", m) for i, m in enumerate(bad)))
            viol.append({"key": ident + "|untagged_accepted", "msg": "nn.Linear inside a depth container accepted"})
        except ValueError:
            pass
    return {"violations": viol, "steps": cnt, "outcome": "depth"}


class _Spy:
    def __init__(self, name: str) -> None:
        import unit_scaling.functional as U

        self.name = name
        self.real = getattr(U, name)
        self.calls: List[Any] = []

    def __call__(self, *a: Any, **k: Any) -> Any:
        self.calls.append((a, k))
        return self.real(*a, **k)


def _spied(names: List[str]) -> Any:
    import contextlib

    import unit_scaling.functional as U

    spies = {n: _Spy(n) for n in names}
    stack = contextlib.ExitStack()
    for n, s in spies.items():
        stack.enter_context(mock.patch.object(U, n, s))
    return stack, spies


def _argval(call: Any, real: Any, name: str) -> Any:
    import inspect

    a, k = call
    sig = inspect.signature(real)
    ba = sig.bind_partial(*a, **k)
    ba.apply_defaults()
    return ba.arguments.get(name)


def _mhsa(case: Dict[str, Any]) -> Dict[str, Any]:
    import torch
    import unit_scaling as uu
    from mc.core import exception_violation

    o = case["opt"]
    ident = f"MHSA|{'train' if o['train'] else 'eval'}"
    viol: List[Dict[str, str]] = []
    torch.manual_seed(3)
    try:
        m = uu.MHSA(o["hidden"], o["heads"], is_causal=o["is_causal"], dropout_p=o["dropout_p"], mult=o["mult"]).double()
    except Exception as e:  # noqa
        return {"violations": [exception_violation(e, ident + "|construct")]}
    m.train(o["train"])
    shapes = {n: tuple(p.shape) for n, p in m.named_parameters()}
    if shapes != {"linear_qkv.weight": (3 * o["hidden"], o["hidden"]), "linear_o.weight": (o["hidden"], o["hidden"])}:
        viol.append({"key": ident + "|parameter_shapes", "msg": f"{shapes}"})
    g = torch.Generator().manual_seed(5)
    x = torch.randn(2, 6, o["hidden"], dtype=torch.float64, generator=g)
    stack, spies = _spied(["scaled_dot_product_attention"])
    with stack:
        torch.manual_seed(11)
        y1 = m(x)
    calls = spies["scaled_dot_product_attention"].calls
    if len(calls) != 1:
        viol.append({"key": ident + "|attention_calls", "msg": f"{len(calls)} calls"})
    else:
        real = spies["scaled_dot_product_attention"].real
        q = calls[0][0][0]
        exp_dp = o["dropout_p"] if o["train"] else 0.0
        got = {k: _argval(calls[0], real, k) for k in ("dropout_p", "is_causal", "mult")}
        if got["is_causal"] != o["is_causal"]:
            viol.append({"key": ident + "|is_causal_not_honoured", "msg": f"{got}"})
        if got["mult"] != o["mult"]:
            viol.append({"key": ident + "|mult_not_honoured", "msg": f"{got}"})
        if got["dropout_p"] != exp_dp:
            viol.append({"key": ident + "|dropout_p_not_honoured", "msg": f"options={o}: attention called with dropout_p={got['dropout_p']}"})
        if tuple(q.shape) != (2, o["heads"], 6, o["hidden"] // o["heads"]):
            viol.append({"key": ident + "|heads_not_honoured", "msg": f"query shape {tuple(q.shape)}"})
    if tuple(y1.shape) != tuple(x.shape):
        viol.append({"key": ident + "|output_shape", "msg": f"{tuple(y1.shape)}"})
    # determinism: eval, or dropout_p == 0 -> independent of RNG state
    torch.manual_seed(12345)
    y2 = m(x)
    rng_free = (not o["train"]) or o["dropout_p"] == 0.0
    if rng_free and not torch.equal(y1, y2):
        viol.append({"key": ident + "|depends_on_rng", "msg": f"options={o}"})
    if not rng_free and torch.equal(y1, y2):
        viol.append({"key": ident + "|dropout_inactive_in_training", "msg": f"options={o}"})
    # causality: output at position t independent of positions > t  (exhaustive over t)
    if rng_free:
        dep_future = False
        for tpos in range(5):
            x2 = x.clone()
            x2[:, tpos + 1:] += 1.0
            yb = m(x2)
            if not torch.allclose(yb[:, : tpos + 1], y1[:, : tpos + 1], rtol=1e-12, atol=1e-13):
                dep_future = True
        if o["is_causal"] and dep_future:
            viol.append({"key": ident + "|causal_leaks_future", "msg": f"options={o}"})
        if not o["is_causal"] and not dep_future:
            viol.append({"key": ident + "|non_causal_ignores_future", "msg": f"options={o}"})
        # batch independence
        x3 = x.clone()
        x3[1] += 1.0
        if not torch.allclose(m(x3)[0], y1[0], rtol=1e-12, atol=1e-13):
            viol.append({"key": ident + "|batch_elements_interact", "msg": f"options={o}"})
        # eval equals train when dropout_p == 0
        if o["dropout_p"] == 0.0:
            m.train(not o["train"])
            if not torch.equal(m(x), y1):
                viol.append({"key": ident + "|train_eval_differ_without_dropout", "msg": f"options={o}"})
    return {"violations": viol[:4], "steps": 10, "outcome": "mhsa"}


def _mlp(case: Dict[str, Any]) -> Dict[str, Any]:
    import torch
    import unit_scaling as uu
    import unit_scaling.functional as U

    o = case["opt"]
    ident = "MLP"
    viol: List[Dict[str, str]] = []
    torch.manual_seed(3)
    m = uu.MLP(o["hidden"], expansion_factor=o["expansion_factor"]).double()
    m.train(o["train"])
    h, e = o["hidden"], o["hidden"] * o["expansion_factor"]
    shapes = {n: tuple(p.shape) for n, p in m.named_parameters()}
    if shapes != {"linear_1.weight": (e, h), "linear_gate.weight": (e, h), "linear_2.weight": (h, e)}:
        viol.append({"key": ident + "|parameter_shapes", "msg": f"options={o}: {shapes}"})
    x = torch.randn(2, 3, h, dtype=torch.float64, generator=torch.Generator().manual_seed(5), requires_grad=True)
    y = m(x)
    z = U.silu_glu(U.linear(x, m.linear_1.weight, None, constraint=None), U.linear(x, m.linear_gate.weight, None, constraint=None))
    yf = U.linear(z, m.linear_2.weight, None, constraint=None)
    if y.shape != yf.shape or not torch.allclose(y, yf, rtol=1e-12, atol=1e-14):
        viol.append({"key": ident + "|differs_from_functional", "msg": f"options={o}"})
    else:
        up = torch.ones_like(y)
        ps = [x] + list(m.parameters())
        for a, b in zip(torch.autograd.grad(y, ps, up, retain_graph=True), torch.autograd.grad(yf, ps, up)):
            if not torch.allclose(a, b, rtol=1e-12, atol=1e-14):
                viol.append({"key": ident + "|grad_differs_from_functional", "msg": f"options={o}"})
                break
    return {"violations": viol, "steps": 2, "outcome": "mlp"}


def _layer(case: Dict[str, Any]) -> Dict[str, Any]:
    import torch
    import unit_scaling as uu
    import unit_scaling.functional as U

    o = case["opt"]
    ident = f"TransformerLayer|{'train' if o['train'] else 'eval'}"
    viol: List[Dict[str, str]] = []
    torch.manual_seed(3)
    m = uu.TransformerLayer(8, o["heads"], mhsa_tau=o["mhsa_tau"], mlp_tau=o["mlp_tau"], is_causal=o["is_causal"],
                            dropout_p=o["dropout_p"]).double()
    m.train(o["train"])
    x = torch.randn(2, 5, 8, dtype=torch.float64, generator=torch.Generator().manual_seed(5), requires_grad=True)
    torch.manual_seed(21)
    y = m(x)
    # functional form built from the layer's own sub-modules and the options given to the constructor
    torch.manual_seed(21)
    h = U.residual_apply(lambda r: U.dropout(m.mhsa(m.mhsa_norm(r)), o["dropout_p"], o["train"]), x, o["mhsa_tau"])
    yf = U.residual_apply(lambda r: U.dropout(m.mlp(m.mlp_norm(r)), o["dropout_p"], o["train"]), h, o["mlp_tau"])
    if y.shape != yf.shape or not torch.allclose(y, yf, rtol=1e-12, atol=1e-14):
        viol.append({"key": ident + "|differs_from_functional", "msg": f"options={o}: max err {(y - yf).abs().max().item():.3e}"})
    else:
        (ga,) = torch.autograd.grad(y, x, torch.ones_like(y), retain_graph=True)
        (gb,) = torch.autograd.grad(yf, x, torch.ones_like(y))
        if not torch.allclose(ga, gb, rtol=1e-12, atol=1e-14):
            viol.append({"key": ident + "|grad_differs_from_functional", "msg": f"options={o}"})
    if m.mhsa.is_causal != o["is_causal"] or m.mhsa.heads != o["heads"] or m.mhsa.dropout_p != o["dropout_p"]:
        viol.append({"key": ident + "|options_not_forwarded_to_mhsa", "msg": f"options={o}"})
    torch.manual_seed(999)
    y2 = m(x)
    rng_free = (not o["train"]) or o["dropout_p"] == 0.0
    if rng_free and not torch.equal(y, y2):
        viol.append({"key": ident + "|depends_on_rng", "msg": f"options={o}"})
    if not rng_free and torch.equal(y, y2):
        viol.append({"key": ident + "|dropout_inactive_in_training", "msg": f"options={o}"})
    return {"violations": viol[:4], "steps": 3, "outcome": "layer"}


def _decoder(case: Dict[str, Any]) -> Dict[str, Any]:
    import torch
    import unit_scaling as uu
    import unit_scaling.functional as U

    o = case["opt"]
    ident = f"TransformerDecoder|{'train' if o['train'] else 'eval'}"
    viol: List[Dict[str, str]] = []
    torch.manual_seed(3)
    m = uu.TransformerDecoder(hidden_size=8, vocab_size=11, layers=o["layers"], heads=o["heads"], dropout_p=o["dropout_p"])
    m.train(o["train"])
    if len(m.layers) != o["layers"]:
        viol.append({"key": ident + "|layers_not_honoured", "msg": f"{len(m.layers)}"})
    for i, lyr in enumerate(m.layers):
        if lyr.dropout_p != o["dropout_p"] or lyr.mhsa.dropout_p != o["dropout_p"] or lyr.mhsa.heads != o["heads"] \
                or lyr.mhsa.is_causal is not True:
            viol.append({"key": ident + "|options_not_forwarded_to_layers", "msg": f"layer {i}: options={o}"})
            break
    ids = torch.randint(0, 11, (2, 6), generator=torch.Generator().manual_seed(5))
    torch.manual_seed(31)
    y = m(ids)
    if tuple(y.shape) != (2, 6, 11):
        viol.append({"key": ident + "|output_shape", "msg": f"{tuple(y.shape)}"})
    torch.manual_seed(31)
    yf = m.projection(m.final_norm(m.layers(m.embedding(ids))))
    if not torch.equal(y, yf):
        viol.append({"key": ident + "|differs_from_composition", "msg": f"options={o}"})
    rng_free = (not o["train"]) or o["dropout_p"] == 0.0
    torch.manual_seed(777)
    y2 = m(ids)
    if rng_free and not torch.equal(y, y2):
        viol.append({"key": ident + "|depends_on_rng", "msg": f"options={o}"})
    if rng_free:
        # decoder is causal: logits at position t do not depend on later tokens
        for tpos in range(5):
            ids2 = ids.clone()
            ids2[:, tpos + 1:] = (ids2[:, tpos + 1:] + 1) % 11
            if not torch.allclose(m(ids2)[:, : tpos + 1], y[:, : tpos + 1], rtol=1e-5, atol=1e-6):
                viol.append({"key": ident + "|causal_leaks_future", "msg": f"options={o} t={tpos}"})
                break
        torch.manual_seed(31)
        want = U.cross_entropy(y.float()[..., :-1, :].flatten(end_dim=-2), ids[..., 1:].flatten())
        got = m.loss(ids)
        if not torch.allclose(got, want, rtol=1e-6, atol=1e-7):
            viol.append({"key": ident + "|loss_differs", "msg": f"{got.item()} vs {want.item()}"})
    _tags_ok(m, {"embedding.weight": "weight", "projection.weight": "output"}, viol, ident)
    for name, p in m.layers.named_parameters():
        if p.mup_scaling_depth != o["layers"]:
            viol.append({"key": ident + "|wrong_depth", "msg": f"{name}: {p.mup_scaling_depth}"})
            break
    return {"violations": viol[:4], "steps": 8, "outcome": "decoder"}


def run_case(case: Dict[str, Any]) -> Dict[str, Any]:
    import torch
    import unit_scaling as uu

    k = case["kind"]
    if k == "simple":
        return _simple(case)
    if k == "reject":
        cls, kw = case["cls"], dict(case["kw"])
        if kw.get("weight") == "TENSOR":
            kw["weight"] = torch.ones(5)
        base = {"SiLU": {}, "Dropout": {}, "Embedding": {"num_embeddings": 5, "embedding_dim": 3}, "CrossEntropyLoss": {}}[cls]
        try:
            mod = getattr(uu, cls)(**base, **kw)
            if "reduction" in kw:
                # (an unimplemented VALUE of an implemented option: the pinned tree rejects it at the first call -
                # accepted as a rejection; what must not happen is a silently different reduction)
                y = mod(torch.randn(4, 5), torch.tensor([1, 2, 3, 4]))
                return {"violations": [{"key": f"{cls}|unsupported_option_accepted|{','.join(case['kw'])}",
                                        "msg": f"{cls}({case['kw']}) constructed and returned shape {tuple(y.shape)}"}], "outcome": "accepted"}
            return {"violations": [{"key": f"{cls}|unsupported_option_accepted|{','.join(case['kw'])}",
                                    "msg": f"{cls}({case['kw']}) constructed"}], "outcome": "accepted"}
        except Exception:  # noqa
            return {"violations": [], "outcome": "rejected"}
    return {"init": _init, "depth": _depth, "mhsa": _mhsa, "mlp": _mlp, "layer": _layer, "decoder": _decoder}[k](case)
