"""C09 — u-muP parameter tags survive any history of copies, pickling and transforms.

Explorer kind H.  (1) Stateless: every sequence of length 0..3 (quick) / 0..4 (thorough)
over a 16-operation alphabet, from each of 12 initial states, replayed on fresh objects.
(2) Stateful: breadth-first search to FIXPOINT over a canonical abstract state that includes
the implementation-hidden bits (presence of the per-instance copy/pickle hooks), giving an
unbounded-depth result for the abstraction.  Reference model: a plain tuple
(tag, depth, dtype, requires_grad, values) updated by the obvious rule per operation.
"""

from __future__ import annotations

import itertools
from typing import Any, Dict, List, Optional, Tuple

PROPERTY = "C09"
OPS = ["copy_p", "copy_M", "pickle_p", "pickle_M", "save_p", "save_M", "to_f64", "half",
       "load_sd", "toggle_rg", "simulate_fp8", "unit_scale", "dump_p_keep", "dump_M_keep", "write", "track_scales"]
TAGS = ["weight", "bias", "norm", "output"]
DEPTHS = [None, 1, 7]
MAXLEN = {"quick": 3, "thorough": 4}
RULE = (
    "case = (initial tag, depth, first operation) -> all histories with that prefix up to the "
    "length bound, each replayed from scratch and checked after EVERY step; plus one BFS-to-"
    "fixpoint case per initial state; states = histories; non-trivial = history length >= 2"
)
BOUND = {
    "quick": "all 4369 sequences of length <=3 over 16 ops x 12 initial states (every earlier object of a history keeps its values and storage); BFS to fixpoint on "
    "(tag, depth, dtype, requires_grad, hook bits, transformed bit, holder class)",
    "thorough": "all 41371 sequences of length <=4 x 12 initial states; BFS to fixpoint",
}
EXHAUSTIVE = {"quick": True, "thorough": True}
ASSUMPTIONS = [
    "holder module is a uu.Linear(3,4); values are one seeded draw (A1)",
    "BFS canonical state drops tensor values (assumed not to influence tag handling)",
    "pickling / torch.save of a MODULE that has been transformed is impossible in Python (the "
    "transform installs a local closure as forward); such histories are counted as unrealisable, "
    "not as violations; parameter-level pickling must always work",
    "transforms are applied without running forward (the deep copy happens at application time)",
    "track_scales is documented to come last: histories applying another transform after it are counted as unrealisable "
    "(unit_scale(track_scales(m)) raises AttributeError in _order_backends on the pinned tree - observation, outside the statement)",
]


def cases(tier: str, seed: int) -> List[Dict[str, Any]]:
    out: List[Dict[str, Any]] = []
    for tag in TAGS:
        for depth in DEPTHS:
            out.append({"kind": "seq", "tag": tag, "depth": depth, "first": None, "maxlen": 0})
            for op in OPS:
                out.append({"kind": "seq", "tag": tag, "depth": depth, "first": op, "maxlen": MAXLEN[tier]})
            out.append({"kind": "bfs", "tag": tag, "depth": depth})
    # object lifetimes: many short-lived parameters of ONE shape but different tags / depths pass through the
    # optimizers in one fresh process (a later parameter may be allocated at a freed one's address)
    out.append({"kind": "lifetime", "tag": "weight", "depth": None, "fresh": True})
    return out


class Unrealisable(Exception):
    pass


def _initial(tag: str, depth: Optional[int]) -> Tuple[Any, Any, Dict[str, Any]]:
    import torch
    import unit_scaling as uu

    g = torch.Generator().manual_seed(17)
    M = uu.Linear(3, 4, bias=True)
    data = torch.randn(4, 3, generator=g)
    M.weight = uu.Parameter(data.clone(), tag, depth)
    model = {"tag": tag, "depth": depth, "dtype": torch.float32, "rg": True, "values": data.clone(),
             "transformed": False}
    return M, M.weight, model


def _apply(op: str, M: Any, p: Any, model: Dict[str, Any], step: int) -> Tuple[Any, Any]:
    import copy
    import io
    import pickle

    import torch

    if op == "copy_p":
        q = copy.deepcopy(p)
        M.weight = q
        return M, q
    if op == "copy_M":
        M2 = copy.deepcopy(M)
        return M2, M2.weight
    if op == "dump_p_keep":
        # serialise, but go on using the ORIGINAL object (a checkpoint written during training)
        pickle.dumps(p)
        b = io.BytesIO()
        torch.save(p, b)
        return M, p
    if op == "dump_M_keep":
        try:
            pickle.dumps(M)
            b = io.BytesIO()
            torch.save(M, b)
        except (pickle.PicklingError, AttributeError, TypeError) as e:
            if model["transformed"] and ("local" in str(e) or "pickle" in str(e).lower()):
                raise Unrealisable("transformed module is not picklable (local closure)")
            raise
        return M, p
    if op == "pickle_p":
        q = pickle.loads(pickle.dumps(p))
        M.weight = q
        return M, q
    if op == "save_p":
        b = io.BytesIO()
        torch.save(p, b)
        b.seek(0)
        q = torch.load(b, weights_only=False)
        M.weight = q
        return M, q
    if op in ("pickle_M", "save_M"):
        try:
            if op == "pickle_M":
                M2 = pickle.loads(pickle.dumps(M))
            else:
                b = io.BytesIO()
                torch.save(M, b)
                b.seek(0)
                M2 = torch.load(b, weights_only=False)
        except (pickle.PicklingError, AttributeError, TypeError) as e:
            if model["transformed"] and ("local" in str(e) or "pickle" in str(e).lower()):
                raise Unrealisable("transformed module is not picklable (local closure)")
            raise
        return M2, M2.weight
    if op == "to_f64":
        M2 = M.to(torch.float64)
        model["dtype"] = torch.float64
        model["values"] = model["values"].to(torch.float64)
        return M2, M2.weight
    if op == "half":
        M2 = M.half()
        model["dtype"] = torch.float16
        model["values"] = model["values"].to(torch.float16)
        return M2, M2.weight
    if op == "load_sd":
        import unit_scaling as uu

        g = torch.Generator().manual_seed(1000 + step)
        twin = uu.Linear(3, 4, bias=True)
        with torch.no_grad():
            twin.weight.copy_(torch.randn(4, 3, generator=g))
        M.load_state_dict(twin.state_dict())
        model["values"] = twin.weight.detach().to(model["dtype"])
        return M, M.weight
    if op == "write":
        # an in-place update of the current object (optimizer step / manual re-initialisation)
        with torch.no_grad():
            p.mul_(0.5).add_(0.25)
        model["values"] = (model["values"] * 0.5 + 0.25).to(model["dtype"])
        if model["dtype"] == torch.float16:
            model["approx"] = True
        return M, p
    if op == "toggle_rg":
        p.requires_grad_(not p.requires_grad)
        model["rg"] = not model["rg"]
        return M, p
    if op == "simulate_fp8":
        from unit_scaling.transforms import simulate_fp8

        M2 = simulate_fp8(M)
        model["transformed"] = True
        return M2, M2.weight
    if model.get("tracked") and op in ("simulate_fp8", "unit_scale", "track_scales"):
        raise Unrealisable("track_scales is documented to come last in a chain of transforms")
    if op == "track_scales":
        from unit_scaling.transforms import track_scales

        M2 = track_scales(M)
        model["transformed"] = True
        model["tracked"] = True
        return M2, M2.weight
    if op == "unit_scale":
        from unit_scaling.transforms import unit_scale

        M2 = unit_scale(M)
        model["transformed"] = True
        v = model["values"]
        model["values"] = v / v.std()
        model["approx"] = True
        return M2, M2.weight
    raise AssertionError(op)


def _observe(M: Any, p: Any, model: Dict[str, Any], lr0: Dict[str, float]) -> List[str]:
    """Compare implementation with the reference model; returns failing clause names."""
    import torch
    from unit_scaling import optim
    from unit_scaling.parameter import has_parameter_data

    bad = []
    if not isinstance(p, torch.nn.Parameter):
        bad.append("not_a_Parameter")
        return bad
    if not has_parameter_data(p):
        bad.append("tags_lost")
    else:
        if p.mup_type != model["tag"]:
            bad.append("mup_type_changed")
        if p.mup_scaling_depth != model["depth"]:
            bad.append("depth_changed")
    if p.dtype != model["dtype"]:
        bad.append("dtype")
    if p.requires_grad != model["rg"]:
        bad.append("requires_grad")
    if p.shape != model["values"].shape:
        bad.append("shape")
    else:
        a, b = p.detach().to(torch.float64), model["values"].to(torch.float64)
        if model.get("approx"):
            if not torch.allclose(a, b, rtol=2e-3 if p.dtype == torch.float16 else 1e-5, atol=1e-6):
                bad.append("values")
        elif not torch.equal(a, b):
            bad.append("values")
    if M.weight is not p or not any(q is p for q in M.parameters()):
        bad.append("not_held_by_module")
    if not bad:
        for nm, fn in (("adam", optim.lr_scale_func_adam), ("sgd", optim.lr_scale_func_sgd("to_output_scale"))):
            try:
                g = optim.scaled_parameters([p], fn, lr=1.0)
                if abs(float(g[0]["lr"]) - lr0[nm]) > 1e-12 * lr0[nm]:
                    bad.append(f"lr_scale_{nm}")
                gt = optim.scaled_parameters([p], fn, lr=torch.tensor(1.0))
                if abs(float(gt[0]["lr"]) - lr0[nm]) > 3e-7 * lr0[nm] or gt[0]["lr"].dtype != torch.float32:
                    bad.append(f"lr_scale_tensor_lr_{nm}")
            except Exception:  # noqa
                bad.append(f"optimizer_rejects_{nm}")
    return bad


def _lr0(tag: str, depth: Optional[int]) -> Dict[str, float]:
    import math

    from checks.c10 import expected_sq

    return {"adam": math.sqrt(expected_sq("adam", tag, (4, 3), depth)),
            "sgd": math.sqrt(expected_sq("sgd_out", tag, (4,) if tag in ("bias", "norm") else (4, 3), depth))
            if tag not in ("bias", "norm") else 4.0 / math.sqrt(depth or 1)}


def _replay(tag: str, depth: Optional[int], hist: List[str], check_from: int = 0) -> Dict[str, Any]:
    """Replays a history on fresh objects.  Returns {bad: [...], at: step, state: key}."""
    import torch

    torch.manual_seed(0)
    M, p, model = _initial(tag, depth)
    lr0 = _lr0(tag, depth)
    bad = _observe(M, p, model, lr0) if check_from == 0 else []
    if bad:
        return {"bad": bad, "at": 0}
    ancestors: List[Any] = []  # (earlier parameter object, snapshot of its values): copies never alias their source
    for i, op in enumerate(hist):
        p_before = p
        snap = p.detach().clone()
        M, p = _apply(op, M, p, model, i)
        if p is not p_before:
            ancestors.append((p_before, snap))
        if i + 1 >= check_from:
            bad = _observe(M, p, model, lr0)
            for q, val in ancestors:
                if q.dtype == val.dtype and not torch.equal(q.detach(), val):
                    bad.append("earlier_object_values_changed")
                    break
                if q.data_ptr() == p.data_ptr() and q.numel():
                    bad.append("storage_shared_with_earlier_object")
                    break
            if bad:
                return {"bad": bad, "at": i + 1}
    key = (model["dtype"], model["rg"], model["transformed"], bool(model.get("tracked")), type(M).__name__,
           "__deepcopy__" in p.__dict__, "__reduce_ex__" in p.__dict__, min(len(getattr(M, "backends", [])), 2))  # 0, 1, "2 or more" nested transforms
    return {"bad": [], "state": key}


def _hist_key(hist: List[str], at: int) -> str:
    h = hist[:at]
    return ">".join(h) if h else "initial"


def run_case(case: Dict[str, Any]) -> Dict[str, Any]:
    from mc.core import exception_violation

    tag, depth = case["tag"], case["depth"]
    viol: Dict[str, Dict[str, str]] = {}
    n = steps = unreal = 0

    def run(hist: List[str], check_from: int = 0) -> Optional[Dict[str, Any]]:
        nonlocal n, steps, unreal
        n += 1
        steps += len(hist)
        try:
            r = _replay(tag, depth, hist, check_from)
        except Unrealisable:
            unreal += 1
            return None
        except Exception as e:  # noqa
            v = exception_violation(e, f"history={'>'.join(hist)}")
            viol.setdefault(v["key"], v)
            return None
        if r["bad"]:
            hk = _hist_key(hist, r["at"])
            key = f"history={hk}|{'+'.join(r['bad'])}"
            viol.setdefault(key, {"key": key, "msg": f"tag={tag} depth={depth}: after {hk}: {r['bad']}"})
            return None
        return r

    if case["kind"] == "lifetime":
        import copy
        import gc
        import pickle

        import torch
        import unit_scaling as uu
        from unit_scaling import optim

        sgd_fn = optim.lr_scale_func_sgd("to_output_scale")  # ONE rule object for the whole history
        for rep in range(2):
            for tg in TAGS:
                for dp in DEPTHS:
                    for hist in ("fresh", "copy", "copy_pickle"):
                        # a BATCH of short-lived parameters (address reuse by at least one later parameter is then
                        # practically certain, whatever the allocator state of the process)
                        ps = [uu.Parameter(torch.randn(4, 3), tg, dp) for _ in range(48)]
                        if hist != "fresh":
                            ps = [copy.deepcopy(q) for q in ps]
                        if hist == "copy_pickle":
                            ps = [pickle.loads(pickle.dumps(copy.deepcopy(q))) for q in ps]
                        lr0 = _lr0(tg, dp)
                        for nm, fn in (("adam", optim.lr_scale_func_adam), ("sgd", sgd_fn)):
                            gs = optim.scaled_parameters(ps, fn, lr=1.0)
                            steps += len(ps)
                            wrong = [float(g["lr"]) for g in gs if abs(float(g["lr"]) - lr0[nm]) > 1e-12 * lr0[nm]]
                            if wrong:
                                key = f"lifetime|lr_scale_{nm}|wrong_for_a_later_parameter"
                                viol.setdefault(key, {"key": key, "msg": f"tag={tg} depth={dp} ({hist}, pass {rep}): {len(wrong)} of {len(ps)} parameters get lr={wrong[0]!r}, expected {lr0[nm]!r}"})
                            del gs
                        del ps
                        gc.collect()
        return {"violations": list(viol.values())[:3], "steps": steps, "n_states": steps, "nontrivial": True, "outcome": f"lifetime:{'ok' if not viol else 'bad'}"}
    if case["kind"] == "seq":
        first = case["first"]
        if first is None:
            run([])
        else:
            for L in range(1, case["maxlen"] + 1):
                for rest in itertools.product(OPS, repeat=L - 1):
                    hist = [first] + list(rest)
                    # skip extensions of an already-failing prefix (reported once, shortest first)
                    if any(k.startswith("history=" + ">".join(hist[:j]) + "|") for j in range(1, L) for k in viol):
                        continue
                    run(hist, check_from=L)
        return {"violations": list(viol.values())[:6], "steps": steps, "n_states": n,
                "nontrivial": case["maxlen"] >= 2, "outcome": f"seq:{'ok' if not viol else 'bad'}",
                "unrealisable": unreal}

    # ---- BFS to fixpoint over the canonical abstract state
    seen = {}
    frontier: List[List[str]] = [[]]
    r0 = run([])
    if r0 is not None:
        seen[r0["state"]] = []
    depth_reached = 0
    capped = False
    while frontier and not viol:
        nxt: List[List[str]] = []
        for hist in frontier:
            for op in OPS:
                h2 = hist + [op]
                r = run(h2, check_from=len(h2))
                if r is None:
                    continue
                if r["state"] not in seen:
                    seen[r["state"]] = h2
                    nxt.append(h2)
                    depth_reached = max(depth_reached, len(h2))
        frontier = nxt
        if depth_reached > 12:
            capped = True
            break
    return {"violations": list(viol.values())[:6], "steps": steps, "n_states": len(seen),
            "outcome": f"bfs:states={len(seen)}:depth={depth_reached}:{'CAPPED' if capped else 'fixpoint'}", "nontrivial": True,
            "unrealisable": unreal}


def summarise(results: List[Dict[str, Any]], tier: str, seed: int) -> Dict[str, Any]:
    return {"histories_unrealisable": sum(int(r.get("unrealisable", 0)) for r in results),
            "bfs_fixpoints": sorted({r["outcome"] for r in results if str(r.get("outcome", "")).startswith("bfs")})}
