"""C10 — optimizer learning rates follow the u-muP rule for every type, shape, depth.

Explorer: lattice walk (kind L).  Parameters live on the `meta` device (no storage) so the
shape space is walked densely.  Oracle: an independent table of *squared* LR factors in
exact rationals, fan-in derived from the statement.
"""

from __future__ import annotations

import itertools
import math
from fractions import Fraction
from typing import Any, Dict, List, Optional, Tuple

PROPERTY = "C10"
TAGS = ["weight", "bias", "norm", "output"]
DIMS = [1, 2, 3, 4, 5, 7, 8, 16, 31, 64, 256, 1000, 4096]
DEPTHS_Q = [None, 1, 2, 3, 7, 64, 1024]
LRS = [1e-3, 1e-8, 0.5, 1.0, 1e2]
RULES = ["adam", "sgd_none", "sgd_out"]
RULE = (
    "part A: every (rule, tag, depth, shape) state calls scaled_parameters on a meta-device "
    "parameter; part B: every (entry point, container form, lr kind, lr value, allow flag) x "
    "a fixed set of (shape, tag, depth) parameters; non-trivial = expected factor != 1 or an "
    "error case"
)
BOUND = {
    "quick": "1-D lengths 1..512 + DIMS; 2-D DIMS^2; 3-D over 8 DIMS^3; 7 depths; 3 rules; "
    "wiring: full product of 6 entry points x 6 forms x 3 lr kinds x 5 lrs x 2 flags",
    "thorough": "1-D lengths 1..4096; 2-D DIMS^2; 3-D DIMS^3; depth in None+1..1024 on a shape "
    "subset; wiring full product",
}
EXHAUSTIVE = {"quick": True, "thorough": True}
ASSUMPTIONS = [
    "shapes from the stated dimension alphabet, not all of 1..4096^3 (A3)",
    "for multi-dimensional bias / norm parameters under SGD with an output-scaled readout 'length' is read as len(param) = shape[0]",
    "float lr compared to 1e-13 relative, float32 tensor lr to 3e-7, float64 tensor lr to 1e-13",
]


def expected_sq(rule: str, tag: str, shape: Tuple[int, ...], depth: Optional[int]) -> Any:
    """Squared lr factor as an exact rational, or 'error'."""

    def fan_in() -> Any:
        if len(shape) == 1:
            return shape[0]
        if len(shape) == 2:
            return shape[1]
        if len(shape) == 3:
            return shape[1] * shape[2]
        return "error"

    if rule in ("adam", "sgd_none"):
        if tag == "weight":
            f = fan_in()
            if f == "error":
                return "error"
            sq = Fraction(1, f)
        else:
            sq = Fraction(1)
    else:
        if tag == "weight":
            f = fan_in()
            if f == "error":
                return "error"
            sq = Fraction(f)
        elif tag in ("bias", "norm"):
            sq = Fraction(shape[0] ** 2)  # "length" = len(param), also for multi-dim gains (LayerNorm([8, 32]))
        else:
            sq = Fraction(1)
    if depth is not None:
        sq = sq / depth
    return sq


def _shapes(tier: str) -> List[Tuple[int, ...]]:
    n1 = 4096 if tier == "thorough" else 512
    s: List[Tuple[int, ...]] = [(n,) for n in sorted(set(range(1, n1 + 1)) | set(DIMS))]
    s += [(a, b) for a in DIMS for b in DIMS]
    d3 = DIMS if tier == "thorough" else [1, 2, 3, 5, 8, 31, 64, 1000]
    s += [(a, b, c) for a in d3 for b in d3 for c in d3]
    s += [(2, 3, 4, 5), (1, 1, 1, 1), (3, 3, 3, 3, 3)]
    return s


def cases(tier: str, seed: int) -> List[Dict[str, Any]]:
    out: List[Dict[str, Any]] = []
    shapes = _shapes(tier)
    blocks = [shapes[i : i + 400] for i in range(0, len(shapes), 400)]
    for rule in RULES:
        for tag in TAGS:
            for depth in DEPTHS_Q:
                for bi, _ in enumerate(blocks):
                    out.append(
                        {"kind": "A", "rule": rule, "tag": tag, "depth": depth, "block": bi, "tier": tier}
                    )
    if tier == "thorough":
        for rule in RULES:
            for tag in TAGS:
                for d0 in range(1, 1025, 64):
                    out.append({"kind": "D", "rule": rule, "tag": tag, "d0": d0, "d1": d0 + 64})
    entry = ["raw_adam", "raw_sgd_out", "Adam", "AdamW", "SGD_none", "SGD_out"]
    forms = ["list", "generator", "group_nolr", "group_ownlr", "two_groups", "group_tensor_ownlr", "group_generator"]
    kinds = ["float", "t32", "t64"]
    for e, f, k, lr, allow in itertools.product(entry, forms, kinds, LRS, [False, True]):
        out.append({"kind": "B", "entry": e, "form": f, "lrkind": k, "lr": lr, "allow": allow})
        if not e.startswith("raw"):
            # the optimizer classes take the learning rate as their second POSITIONAL parameter too (as torch's do),
            # and default it to 1e-3 when it is not given at all
            out.append({"kind": "B", "entry": e, "form": f, "lrkind": k, "lr": lr, "allow": allow, "lrpass": "positional"})
            if k == "float" and lr == LRS[0]:
                out.append({"kind": "B", "entry": e, "form": f, "lrkind": k, "lr": 1e-3, "allow": allow, "lrpass": "default"})
    for e in entry:
        out.append({"kind": "E", "entry": e})
    return out


def _mk(shape: Tuple[int, ...], tag: Optional[str], depth: Optional[int]) -> Any:
    import torch
    import unit_scaling as uu

    data = torch.empty(shape, device="meta")
    if tag is None:
        return torch.nn.Parameter(data)
    return uu.Parameter(data, tag, depth)


def _rule_fn(rule: str) -> Any:
    from unit_scaling import optim

    return {
        "adam": optim.lr_scale_func_adam,
        "sgd_none": optim.lr_scale_func_sgd(None),
        "sgd_out": optim.lr_scale_func_sgd("to_output_scale"),
    }[rule]


def _lr_close(got: Any, want: float, kind: str) -> bool:
    g = float(got)
    tol = 3e-7 if kind == "t32" else 1e-13
    return abs(g - want) <= tol * abs(want)


PARAMS_B = [
    ((5,), "weight", None),
    ((3, 7), "weight", 3),
    ((7, 3), "weight", None),
    ((4, 3, 5), "weight", 2),
    ((6,), "bias", 7),
    ((9,), "norm", None),
    ((11, 13), "output", 64),
    ((1,), "weight", 1),
    ((16, 16), "weight", None),
    ((2, 8, 1), "weight", None),
    # several parameters of ONE call sharing (tag, shape) but not depth, or shape but not tag
    ((3, 7), "weight", None),
    ((3, 7), "weight", 64),
    ((6,), "bias", None),
    ((9,), "bias", 2),
    ((11, 13), "output", None),
    ((11, 13), "weight", 64),
    ((7, 3), "weight", 5),
    ((16, 16), "weight", 4),
    ((16, 16), "output", 4),
]


def run_case(case: Dict[str, Any]) -> Dict[str, Any]:
    import torch
    from unit_scaling import optim

    viol: List[Dict[str, str]] = []
    k = case["kind"]
    if k in ("A", "D"):
        rule, tag = case["rule"], case["tag"]
        fn = _rule_fn(rule)
        if k == "A":
            shapes = _shapes(case["tier"])[case["block"] * 400 : (case["block"] + 1) * 400]
            combos = [(s, case["depth"]) for s in shapes]
        else:
            sh = [(5,), (3, 7), (4, 3, 5), (16, 16)]
            combos = [(s, d) for s in sh for d in range(case["d0"], case["d1"])]
        n = nt = 0
        for shape, depth in combos:
            n += 1
            want = expected_sq(rule, tag, shape, depth)
            p = _mk(shape, tag, depth)
            ident = f"A|rule={rule}|tag={tag}|ndim={len(shape)}|depth={'none' if depth is None else 'int'}"
            try:
                groups = optim.scaled_parameters([p], fn, lr=1.0)
            except ValueError as e:
                if want != "error":
                    viol.append({"key": ident + "|unexpected_ValueError", "msg": f"shape={shape} depth={depth}: {e}"})
                nt += 1
                continue
            except Exception as e:  # noqa
                viol.append({"key": ident + f"|raises={type(e).__name__}", "msg": f"shape={shape} depth={depth}: {e}"})
                continue
            if want == "error":
                viol.append({"key": ident + "|missing_error", "msg": f"shape={shape}: >=4-D weight accepted, lr={groups[0]['lr']}"})
                continue
            lr = groups[0]["lr"]
            if want != 1:
                nt += 1
            if not _lr_close(lr, math.sqrt(want), "float"):
                viol.append(
                    {
                        "key": ident + "|lr_mismatch",
                        "msg": f"shape={shape} depth={depth}: lr={float(lr)!r} expected sqrt({want})={math.sqrt(want)!r}",
                    }
                )
        return {"violations": viol[:4], "steps": n, "n_states": n, "nontrivial": nt > 0,
                "outcome": "lr_ok" if not viol else "lr_bad"}

    if k == "E":  # error / allow cases through every entry point
        e = case["entry"]
        n = 0
        for allow in (False, True):
            for shape in [(4,), (3, 5), (2, 3, 4)]:
                p = _mk(shape, None, None)
                tagged = _mk((3, 5), "weight", None)
                n += 1
                try:
                    groups = _call(e, [tagged, p], 0.25, allow)
                    if not allow:
                        viol.append({"key": f"E|{e}|untagged_accepted", "msg": f"shape={shape}"})
                    else:
                        if float(groups[1]["lr"]) != 0.25:
                            viol.append({"key": f"E|{e}|untagged_scaled", "msg": f"lr={groups[1]['lr']}"})
                        want0 = 0.25 * math.sqrt(expected_sq(_rule_of(e), "weight", (3, 5), None))
                        if not _lr_close(groups[0]["lr"], want0, "float"):
                            viol.append({"key": f"E|{e}|tagged_beside_untagged", "msg": f"lr={groups[0]['lr']}"})
                except ValueError:
                    if allow:
                        viol.append({"key": f"E|{e}|untagged_rejected_when_allowed", "msg": f"shape={shape}"})
        # frozen (requires_grad=False) parameters are parameters like any other
        n += 2
        fz = _mk((3, 5), "weight", 4)
        fz.requires_grad_(False)
        try:
            groups = _call(e, [fz, _mk((2, 2), "weight", None)], 0.25, False)
            want = 0.25 * math.sqrt(expected_sq(_rule_of(e), "weight", (3, 5), 4))
            if len(groups) != 2 or groups[0]["params"][0] is not fz or not _lr_close(groups[0]["lr"], want, "float"):
                viol.append({"key": f"E|{e}|frozen_tagged_not_scaled", "msg": f"groups={[(tuple(g['params'][0].shape), float(g['lr'])) for g in groups]}"})
        except Exception as ex:  # noqa
            viol.append({"key": f"E|{e}|frozen_tagged_rejected", "msg": str(ex)[:200]})
        fu = _mk((3, 5), None, None)
        fu.requires_grad_(False)
        try:
            _call(e, [_mk((2, 2), "weight", None), fu], 0.25, False)
            viol.append({"key": f"E|{e}|frozen_untagged_accepted", "msg": ""})
        except ValueError:
            pass
        # untagged parameters sharing an explicit group with tagged ones (both orders)
        for order in ("tagged_first", "untagged_first", "sandwich"):
            t1, t2 = _mk((3, 5), "weight", None), _mk((7, 2), "weight", 4)
            u1 = _mk((4, 6), None, None)
            ps = {"tagged_first": [t1, u1, t2], "untagged_first": [u1, t1, t2], "sandwich": [t1, t2, u1]}[order]
            n += 1
            try:
                groups = _call(e, [{"params": ps, "lr": 0.25}], 0.5, True)
            except Exception as ex:  # noqa
                viol.append({"key": f"E|{e}|mixed_group_raises|{order}", "msg": str(ex)[:200]})
                continue
            for g, p in zip(groups, ps):
                if p is u1:
                    want = 0.25
                else:
                    want = 0.25 * math.sqrt(expected_sq(_rule_of(e), "weight", tuple(p.shape), p.mup_scaling_depth))
                if not _lr_close(g["lr"], want, "float"):
                    viol.append({"key": f"E|{e}|mixed_group_lr|{order}|{'untagged' if p is u1 else 'tagged'}",
                                 "msg": f"shape={tuple(p.shape)}: lr={float(g['lr'])!r} expected {want!r}"})
        # a depth that is not an int / None is not a valid tag
        # 4-D weight is an error through every entry point
        n += 1
        try:
            _call(e, [_mk((2, 3, 4, 5), "weight", None)], 0.5, False)
            viol.append({"key": f"E|{e}|4d_weight_accepted", "msg": ""})
        except ValueError:
            pass
        # missing lr (raw entry points only; the optimizer classes have a default lr)
        if e.startswith("raw"):
            for form in ("list", "group_nolr"):
                n += 1
                p = _mk((3, 5), "weight", None)
                params = [p] if form == "list" else [{"params": [p]}]
                try:
                    optim.scaled_parameters(params, _rule_fn(_rule_of(e)))
                    viol.append({"key": f"E|{e}|missing_lr_accepted|{form}", "msg": ""})
                except ValueError:
                    pass
            n += 1
            p = _mk((3, 5), "weight", None)
            try:
                g = optim.scaled_parameters([{"params": [p], "lr": 2.0}], _rule_fn(_rule_of(e)))
                want = 2.0 * math.sqrt(expected_sq(_rule_of(e), "weight", (3, 5), None))
                if not _lr_close(g[0]["lr"], want, "float"):
                    viol.append({"key": f"E|{e}|group_lr_without_global", "msg": f"{g[0]['lr']}"})
            except ValueError as ex:
                viol.append({"key": f"E|{e}|group_lr_without_global_rejected", "msg": str(ex)})
        return {"violations": viol, "steps": n, "n_states": n, "outcome": "errors_ok" if not viol else "errors_bad"}

    # ---- B: wiring of entry points / container forms / lr kinds
    e, form, kind, lr, allow = case["entry"], case["form"], case["lrkind"], case["lr"], case["allow"]
    rule = _rule_of(e)
    ps = [_mk(s, t, d) for s, t, d in PARAMS_B]
    meta = list(PARAMS_B)
    if rule == "sgd_out":
        pass

    def mklr(v: float) -> Any:
        if kind == "float":
            return v
        return torch.tensor(v, dtype=torch.float32 if kind == "t32" else torch.float64)

    glob = mklr(lr)
    own = lr * 3.0
    if form == "list":
        params, src = list(ps), [lr] * len(ps)
    elif form == "generator":
        params, src = (p for p in ps), [lr] * len(ps)
    elif form == "group_nolr":
        params, src = [{"params": list(ps)}], [lr] * len(ps)
    elif form == "group_generator":
        params, src = [{"params": (p for p in ps)}], [lr] * len(ps)  # e.g. {"params": module.parameters()}
    elif form == "group_ownlr":
        params, src = [{"params": list(ps), "lr": own}], [own] * len(ps)
    elif form == "group_tensor_ownlr":
        params, src = [{"params": list(ps), "lr": mklr(own)}], [own] * len(ps)
    else:
        params = [{"params": ps[:4], "lr": own}, {"params": ps[4:]}]
        src = [own] * 4 + [lr] * (len(ps) - 4)
    ident = f"B|{e}|form={form}|lr={kind}"
    lrpass = case.get("lrpass", "keyword")
    if lrpass != "keyword":
        ident += f"|lr_passed={lrpass}"
    try:
        groups = _call(e, params, glob, allow, lrpass)
    except Exception as ex:  # noqa
        from mc.core import exception_violation

        v = exception_violation(ex, ident)
        return {"violations": [v], "steps": 1, "outcome": "raises"}
    if len(groups) != len(ps):
        viol.append({"key": ident + "|group_count", "msg": f"{len(groups)} groups for {len(ps)} params"})
    for g, (shape, tag, depth), base in zip(groups, meta, src):
        want = base * math.sqrt(expected_sq(rule, tag, shape, depth))
        gk = kind if (form not in ("group_ownlr",) and not (form == "two_groups" and base == own)) else "float"
        if form == "group_tensor_ownlr":
            gk = kind
        if not _lr_close(g["lr"], want, gk):
            viol.append(
                {
                    "key": ident + f"|tag={tag}|ndim={len(shape)}|lr_mismatch",
                    "msg": f"shape={shape} depth={depth} base={base}: lr={float(g['lr'])!r} expected {want!r}",
                }
            )
    return {"violations": viol[:4], "steps": len(ps), "n_states": len(ps),
            "outcome": "wired_ok" if not viol else "wired_bad"}


def _rule_of(entry: str) -> str:
    return {"raw_adam": "adam", "raw_sgd_out": "sgd_out", "Adam": "adam", "AdamW": "adam",
            "SGD_none": "sgd_none", "SGD_out": "sgd_out"}[entry]


def _call(entry: str, params: Any, lr: Any, allow: bool, lrpass: str = "keyword") -> List[Dict[str, Any]]:
    from unit_scaling import optim

    if lrpass != "keyword":
        cls = {"Adam": optim.Adam, "AdamW": optim.AdamW, "SGD_none": optim.SGD, "SGD_out": optim.SGD}[entry]
        kw: Dict[str, Any] = {"allow_non_unit_scaling_params": allow}
        if entry == "SGD_out":
            kw["readout_constraint"] = "to_output_scale"
        opt = cls(params, lr, **kw) if lrpass == "positional" else cls(params, **kw)
        return list(opt.param_groups)

    if entry.startswith("raw"):
        return list(
            optim.scaled_parameters(params, _rule_fn(_rule_of(entry)), lr=lr,
                                    allow_non_unit_scaling_params=allow)
        )
    if entry == "Adam":
        opt = optim.Adam(params, lr=lr, allow_non_unit_scaling_params=allow)
    elif entry == "AdamW":
        opt = optim.AdamW(params, lr=lr, allow_non_unit_scaling_params=allow)
    elif entry == "SGD_none":
        opt = optim.SGD(params, lr=lr, allow_non_unit_scaling_params=allow)
    else:
        opt = optim.SGD(params, lr=lr, allow_non_unit_scaling_params=allow,
                        readout_constraint="to_output_scale")
    return list(opt.param_groups)
