"""C11 — parameter groups preserved; weight decay is learning-rate independent.

Explorer: lattice over group-list structures (kind L) followed by a short history of
optimizer steps with zero gradients (kind H).  Reference model: a list of
(param identity, source-group options) and the closed form (1-wd)^n.
"""

from __future__ import annotations

import itertools
from typing import Any, Dict, List

PROPERTY = "C11"
RULE = (
    "case = (group structure, container form, lr kind, weight decay, untagged mix, "
    "independent flag, entry point); each case runs 3 optimizer steps with zero gradients; "
    "non-trivial = at least one group has an lr factor != 1 and weight_decay > 0, or the "
    "case exercises an error / pass-through clause"
)
BOUND = {
    "quick": "all structures with 1-2 groups (full product of per-group bits) + 3 groups with "
    "<=2 deviating bits; x {float,tensor,shared-tensor own lr} x wd{0.01,0,0.5} x mix x indep x "
    "{raw,SGD,AdamW}; 3 steps each",
    "thorough": "all structures with 1-3 groups (full product) + 4-6 groups x up to 5 params with "
    "<=2 deviating bits",
}
EXHAUSTIVE = {"quick": True, "thorough": True}
ASSUMPTIONS = [
    "parameter values: one seeded float64 draw per case (A1); shapes/tags from a fixed cycle",
    "SGD steps use momentum=0 (momentum makes decay history-dependent by design of torch.optim.SGD)",
]

SHAPES = [(3,), (2, 5), (4, 2, 3), (6,), (3, 3), (5,), (7, 2), (2,)]
TAGS = ["weight", "weight", "weight", "bias", "output", "norm", "weight", "bias"]
GBITS = list(itertools.product([1, 2], [0, 1], [0, 1], [0, 1]))  # nparams, ownlr, ownwd, extras


def _structures(tier: str) -> List[List[List[int]]]:
    out: List[List[List[int]]] = []
    gmax_full = 2 if tier == "quick" else 3
    for G in range(1, gmax_full + 1):
        for combo in itertools.product(GBITS, repeat=G):
            out.append([list(c) for c in combo])
    # larger lists: <=2 deviating bits from the all-default structure
    sizes = [3] if tier == "quick" else [4, 5, 6]
    for G in sizes:
        base = [[1, 0, 0, 0] for _ in range(G)]
        coords = [(g, b) for g in range(G) for b in range(4)]
        out.append([list(x) for x in base])
        for d in (1, 2):
            for sel in itertools.combinations(coords, d):
                s = [list(x) for x in base]
                for g, b in sel:
                    s[g][b] = 2 if b == 0 else 1
                    if b == 0 and tier == "thorough":
                        s[g][b] = 5
                out.append(s)
    return out


def cases(tier: str, seed: int) -> List[Dict[str, Any]]:
    out: List[Dict[str, Any]] = []
    for st in _structures(tier):
        anyown = any(g[1] for g in st)
        for lrkind in ("float", "tensor"):
            for wd in (0.01, 0.0, 0.5):
                for mix in (0, 1):
                    for indep in (1, 0):
                        for entry in ("raw", "SGD", "AdamW"):
                            out.append({"st": st, "form": "groups", "lrkind": lrkind, "wd": wd,
                                        "mix": mix, "indep": indep, "entry": entry, "seed": seed})
        if anyown:
            # MIXED kinds: a tensor learning rate in a group next to a float global one, and the converse
            for lrkind in ("own_tensor", "glob_tensor"):
                for mix in (0, 1):
                    for indep in (1, 0):
                        for entry in ("raw", "SGD", "AdamW"):
                            out.append({"st": st, "form": "groups", "lrkind": lrkind, "wd": 0.01,
                                        "mix": mix, "indep": indep, "entry": entry, "seed": seed})
        for pform in ("generator", "tuple", "iter"):
            for mix in (0, 1):
                for entry in ("raw", "SGD", "AdamW"):
                    out.append({"st": st, "form": "groups", "pform": pform, "lrkind": "float",
                                "wd": 0.01, "mix": mix, "indep": 1, "entry": entry, "seed": seed})
        # frozen parameters (requires_grad=False) are still parameters of their group
        for mix in (0, 1):
            for entry in ("raw", "SGD", "AdamW"):
                out.append({"st": st, "form": "groups", "lrkind": "float", "wd": 0.01, "mix": mix, "indep": 1,
                            "entry": entry, "seed": seed, "frozen": True})
        # groups whose parameters all have the SAME tag and shape (same lr scale): still one group per parameter
        if sum(g[0] for g in st) >= 2:
            for entry in ("raw", "SGD", "AdamW"):
                for mix in (0, 1):
                    out.append({"st": st, "form": "groups", "lrkind": "float", "wd": 0.01, "mix": mix, "indep": 1,
                                "entry": entry, "seed": seed, "uniform": True})
        # distinct Parameter objects that share storage (a readout tied to the embedding under another tag) and
        # zero-element parameters: every input parameter OBJECT still gets exactly one group
        if sum(g[0] for g in st) >= 2:
            for shared in ("tied", "empty"):
                for entry in ("raw", "SGD", "AdamW"):
                    out.append({"st": st, "form": "groups", "lrkind": "float", "wd": 0.01, "mix": 0, "indep": 1,
                                "entry": entry, "seed": seed, "shared": shared})
        if any(g[2] for g in st):
            # an explicit per-group weight_decay of exactly 0 (the usual no-decay group) next to a
            # non-zero global decay, and an explicit group lr next to a different global lr
            for wd in (0.01, 0.5):
                for indep in (1, 0):
                    for entry in ("raw", "SGD", "AdamW"):
                        out.append({"st": st, "form": "groups", "lrkind": "float", "wd": wd, "mix": 0, "indep": indep,
                                    "entry": entry, "seed": seed, "own_wd": 0.0})
        if anyown and sum(g[1] for g in st) >= 2:
            for entry in ("raw", "SGD", "AdamW"):
                out.append({"st": st, "form": "groups", "lrkind": "shared_own", "wd": 0.01,
                            "mix": 0, "indep": 1, "entry": entry, "seed": seed})
    for n in (1, 2, 3, 5):
        for form in ("list", "generator", "tuple"):
            for lrkind in ("float", "tensor"):
                for wd in (0.01, 0.0, 0.5):
                    for mix in (0, 1):
                        for indep in (1, 0):
                            for entry in ("raw", "SGD", "AdamW"):
                                out.append({"st": [[n, 0, 0, 0]], "form": form, "lrkind": lrkind,
                                            "wd": wd, "mix": mix, "indep": indep, "entry": entry,
                                            "seed": seed})
    return out


def _snap(v: Any) -> Any:
    import torch

    if isinstance(v, torch.Tensor):
        return ("T", v.detach().clone(), v._version, id(v))
    if isinstance(v, dict):
        return {k: _snap(x) for k, x in v.items()}
    if isinstance(v, (list, tuple)):
        return [("ID", id(x)) if isinstance(x, torch.nn.Parameter) else _snap(x) for x in v]
    return ("V", v)


def _same(a: Any, b: Any) -> bool:
    import torch

    if isinstance(a, tuple) and a and a[0] == "T":
        return (
            isinstance(b, tuple) and b[0] == "T" and a[3] == b[3] and a[2] == b[2]
            and torch.equal(a[1], b[1])
        )
    if isinstance(a, dict):
        return isinstance(b, dict) and list(a.keys()) == list(b.keys()) and all(
            _same(a[k], b[k]) for k in a)
    if isinstance(a, list):
        return isinstance(b, list) and len(a) == len(b) and all(_same(x, y) for x, y in zip(a, b))
    return a == b


def run_case(case: Dict[str, Any]) -> Dict[str, Any]:
    import torch
    import unit_scaling as uu
    from unit_scaling import optim
    from mc.core import derive_seed, exception_violation

    st, form, lrkind = case["st"], case["form"], case["lrkind"]
    wd, mix, indep, entry = case["wd"], case["mix"], bool(case["indep"]), case["entry"]
    gen = torch.Generator().manual_seed(derive_seed(case["seed"], "C11") % (2**31))
    viol: List[Dict[str, str]] = []
    ident = f"{entry}|form={form}|lr={lrkind}|indep={int(indep)}|mix={mix}"
    if "own_wd" in case:
        ident += "|own_wd=0"
    if case.get("frozen"):
        ident += "|frozen_params"
    if case.get("shared"):
        ident += "|shared=" + case["shared"]
    if case.get("uniform"):
        ident += "|same_scale_params"
    one_shot = case.get("pform", "list") in ("generator", "iter")
    if one_shot:
        ident += "|group_params=" + case["pform"]

    GLOBAL_LR, OWN_LR, OWN_WD = 0.5, 0.125, case.get("own_wd", 0.25)
    extras = {
        "raw": {"betas": (0.8, 0.9), "foo": "bar"},
        "SGD": {"momentum": 0.0, "dampening": 0.0},
        "AdamW": {"betas": (0.8, 0.9), "eps": 1e-6},
    }[entry]

    def mklr(v: float, which: str = "own") -> Any:
        if lrkind == "float" or (lrkind == "own_tensor" and which == "glob") or (lrkind == "glob_tensor" and which == "own"):
            return v
        return torch.tensor(v, dtype=torch.float64)

    shared_own = torch.tensor(OWN_LR, dtype=torch.float64)
    params: List[Any] = []
    src: List[Dict[str, Any]] = []  # reference model: per param, its source options
    groups_in: List[Dict[str, Any]] = []
    idx = 0
    for g in st:
        npar, ownlr, ownwd, ext = g
        ps = []
        for _ in range(npar):
            shape, tag = SHAPES[idx % len(SHAPES)], TAGS[idx % len(TAGS)]
            if case.get("uniform"):
                shape, tag = (6,), "bias"
            data = torch.randn(shape, dtype=torch.float64, generator=gen) + 0.5
            if case.get("shared") == "empty" and idx < 2:
                data = torch.empty((0, 3) if idx == 0 else (0, 5), dtype=torch.float64)  # zero rows, non-zero fan-in
            if case.get("shared") == "tied" and idx == 1:
                data = params[0].data  # same storage, another Parameter object, another tag
                tag = "output" if TAGS[0] != "output" else "weight"
            if mix and idx % 2 == 1:
                p = torch.nn.Parameter(data)
                tagged = False
            else:
                p = uu.Parameter(data, tag, 3 if idx % 3 == 0 else None)
                tagged = True
            if case.get("frozen") and idx % 3 == 0:
                p.requires_grad_(False)
            ps.append(p)
            params.append(p)
            src.append({"tagged": tagged, "lr": OWN_LR if ownlr else GLOBAL_LR,
                        "wd": OWN_WD if ownwd else wd, "extras": dict(extras) if ext else {}})
            idx += 1
        pform = case.get("pform", "list")
        cont: Any = ps
        if pform == "generator":
            cont = (q for q in ps)
        elif pform == "tuple":
            cont = tuple(ps)
        elif pform == "iter":
            cont = iter(ps)
        gd: Dict[str, Any] = {"params": cont}
        if ownlr:
            gd["lr"] = shared_own if lrkind == "shared_own" else mklr(OWN_LR)
        if ownwd:
            gd["weight_decay"] = OWN_WD
        if ext:
            gd.update(extras)
        groups_in.append(gd)
    if form == "groups":
        arg: Any = groups_in
    elif form == "list":
        arg = list(params)
    elif form == "tuple":
        arg = tuple(params)
    else:
        arg = (p for p in params)
    glob_lr = mklr(GLOBAL_LR, "glob") if lrkind != "shared_own" else torch.tensor(GLOBAL_LR, dtype=torch.float64)
    before = _snap(groups_in)
    before_lr = _snap(glob_lr)
    init_vals = [p.detach().clone() for p in params]
    has_untagged = any(not s["tagged"] for s in src)

    def call(allow: bool) -> Any:
        kw = dict(lr=glob_lr, weight_decay=wd, independent_weight_decay=indep,
                  allow_non_unit_scaling_params=allow)
        if entry == "raw":
            return None, list(optim.scaled_parameters(arg, optim.lr_scale_func_adam, **kw))
        if entry == "SGD":
            o = optim.SGD(arg, **kw)
        else:
            o = optim.AdamW(arg, **kw)
        return o, list(o.param_groups)

    if has_untagged and form == "groups" and not one_shot:
        try:
            call(False)
            viol.append({"key": ident + "|untagged_accepted", "msg": "no ValueError"})
        except ValueError:
            pass
        if not _same(before, _snap(groups_in)):
            viol.append({"key": ident + "|input_mutated_on_error", "msg": ""})
    try:
        opt, groups = call(True if has_untagged else False)
    except Exception as e:  # noqa
        return {"violations": [exception_violation(e, ident)], "steps": 1, "outcome": "raises"}

    # ---- structure
    if len(groups) != len(params):
        viol.append({"key": ident + "|group_count", "msg": f"{len(groups)} vs {len(params)} params"})
    else:
        for i, (g, p, s) in enumerate(zip(groups, params, src)):
            if not (len(g["params"]) == 1 and g["params"][0] is p):
                viol.append({"key": ident + "|order_or_identity", "msg": f"group {i}"})
                break
            for k, v in s["extras"].items():
                if k not in g or g[k] != v:
                    viol.append({"key": ident + f"|extra_key_lost", "msg": f"group {i} key {k}: {g.get(k)!r}"})
                    break
            if entry == "raw":
                unexpected = set(g) - {"params", "lr", "weight_decay"} - set(s["extras"])
                if unexpected:
                    viol.append({"key": ident + "|extra_key_invented", "msg": f"{unexpected}"})
            # lr x wd = requested decay
            lr = float(g["lr"])
            if lr <= 0:
                viol.append({"key": ident + "|nonpositive_lr", "msg": f"group {i} lr={lr}"})
            if indep:
                if abs(lr * float(g["weight_decay"]) - s["wd"]) > 1e-12 * max(1.0, s["wd"]):
                    viol.append({"key": ident + "|lr_times_wd", "msg":
                                 f"group {i}: lr={lr} wd={g['weight_decay']} requested {s['wd']}"})
            else:
                if float(g["weight_decay"]) != s["wd"]:
                    viol.append({"key": ident + "|wd_not_passed_through", "msg":
                                 f"group {i}: wd={g['weight_decay']} requested {s['wd']}"})
            if not s["tagged"] and abs(lr - s["lr"]) > 0:
                viol.append({"key": ident + "|untagged_lr_scaled", "msg": f"group {i}: {lr} vs {s['lr']}"})
    # ---- caller's data untouched
    if not _same(before, _snap(groups_in)):
        viol.append({"key": ident + "|input_groups_mutated", "msg": "caller's group dicts / lr tensors changed"})
    if not _same(before_lr, _snap(glob_lr)):
        viol.append({"key": ident + "|global_lr_mutated", "msg": f"{glob_lr}"})
    # ---- no aliasing between scaled groups' tensor lrs, nor with the caller's tensors
    if entry == "raw" and lrkind != "float" and len(groups) == len(params):
        caller = {id(glob_lr)} | {id(g["lr"]) for g in groups_in if isinstance(g.get("lr"), torch.Tensor)}
        seen: Dict[int, int] = {}
        for i, (g, s) in enumerate(zip(groups, src)):
            if not s["tagged"] or not isinstance(g["lr"], torch.Tensor):
                continue
            ptr = g["lr"].data_ptr()
            if id(g["lr"]) in caller or ptr in {t.data_ptr() for t in [glob_lr, shared_own] if isinstance(t, torch.Tensor)}:
                viol.append({"key": ident + "|lr_aliases_caller", "msg": f"group {i}"})
                break
            if ptr in seen:
                viol.append({"key": ident + "|lr_aliased_between_groups", "msg": f"groups {seen[ptr]} and {i}"})
                break
            seen[ptr] = i
    # ---- history of steps with zero gradients
    steps = 0
    if opt is not None and not viol and case.get("shared") != "tied":  # (tied storage decays once per owner)
        for n in (1, 2, 3):
            for p in params:
                if p.requires_grad:
                    p.grad = torch.zeros_like(p)
            opt.step()
            steps += 1
            for i, (p, p0, s) in enumerate(zip(params, init_vals, src)):
                if not p.requires_grad:
                    want = p0  # no gradient, the optimizer leaves it alone
                elif indep:
                    want = p0 * (1 - s["wd"]) ** n
                else:
                    # decay coupled to lr: per step factor (1 - lr_group*wd)
                    want = p0 * (1 - float(groups[i]["lr"]) * s["wd"]) ** n
                if not torch.allclose(p.detach(), want, rtol=1e-12, atol=1e-14):
                    err = (p.detach() - want).abs().max().item()
                    viol.append({"key": ident + f"|decay_after_step", "msg":
                                 f"param {i} shape={tuple(p.shape)} step={n}: max err {err:.3e} "
                                 f"(lr={float(groups[i]['lr'])}, wd={float(groups[i]['weight_decay'])})"})
                    break
            if viol:
                break
    nontriv = (wd > 0 or any(g[2] for g in st)) or not indep or has_untagged
    return {"violations": viol[:4], "steps": steps + len(params), "nontrivial": bool(nontriv),
            "outcome": f"{entry}:{'ok' if not viol else 'bad'}"}
