"""C12 — width-independent updates: one Adam step moves every output by exactly lr.

Explorer kind L (+ small E): full product of (layer kind, fan_in, fan_out / kernel, depth
and container form, eta, optimizer, constraint); for fan_in, fan_out <= 3 ALL +-1 input
patterns x ALL upstream sign patterns are run.  Oracle: |layer(x)_after - layer(x)_before|
= eta / sqrt(depth) on every output coordinate, direction -sign(upstream gradient).
"""

from __future__ import annotations

import itertools
from typing import Any, Dict, List

PROPERTY = "C12"
FANS_Q = [1, 2, 3, 5, 8, 31, 64, 256, 1000]
ETAS = [1e-2, 1e-4, 0.3, 1.0]
RULE = (
    "case = (layer kind, fan_in, fan_out, kernel, depth/container form, eta, optimizer, constraint); "
    "each case runs all (fan<=3) or two seeded +-1 input patterns x upstream sign patterns; "
    "non-trivial = fan_in > 1 or depth > 1 (the LR factor is not 1)"
)
BOUND = {
    "quick": "fan_in, fan_out in {1,2,3,5,8,31,64,256,1000}; conv cin in {1,2,3,8} x kernel 1-9 x cout in "
    "{1,3,64}; depth in {None,1,2,3,64} x 3 container forms (+ on small fans: layer inside a block child, container of prototype deep copies, deep copy / copy of copy of the model); eta in {1e-4,1e-2,0.3,1}; Adam/AdamW; "
    "constraint default/None: full product",
    "thorough": "adds fan 4096 and depth {7, 16}",
}
EXHAUSTIVE = {"quick": True, "thorough": True}
ASSUMPTIONS = [
    "+-1 input / upstream-sign patterns: full product for fan_in, fan_out <= 3 on the default hyperparameters, all "
    "input patterns + all upstream patterns (not their product) on deviating hyperparameters; two seeded "
    "patterns otherwise (A1); upstream magnitudes seeded in [0.1, 10]",
    "Adam/AdamW with eps=0, weight_decay=0, float64, bias-free layers (library default)",
]


def cases(tier: str, seed: int) -> List[Dict[str, Any]]:
    fans = FANS_Q + ([4096] if tier == "thorough" else [])
    depths = [None, 1, 2, 3, 64] + ([7, 16] if tier == "thorough" else [])
    out: List[Dict[str, Any]] = []
    conts = []
    for d in depths:
        if d is None:
            conts.append((None, "bare"))
        else:
            conts += [(d, "DepthSequential"), (d, "DepthSequential_dict"), (d, "DepthModuleList")]
    for kind in ("Linear", "LinearReadout"):
        for fi, fo in itertools.product(fans, fans):
            if fi * fo > 300000:
                continue
            for (d, form), eta, opt, con in itertools.product(conts, ETAS, ["Adam", "AdamW"], ["default", None]):
                # keep the product tractable: vary eta/opt/constraint fully only on small layers
                ndev = (eta != ETAS[0]) + (opt != "Adam") + (con != "default")
                lim = 64 if tier == "quick" else 4096
                if fi * fo > lim and ndev > (1 if fi * fo <= 4096 else 0):
                    continue
                out.append({"kind": kind, "fin": fi, "fout": fo, "k": None, "depth": d, "form": form,
                            "eta": eta, "opt": opt, "constraint": con, "seed": seed})
    # the learning rate given as an int literal (eta = 1) or as a 0-dim tensor
    for kind in ("Linear", "LinearReadout"):
        for fi, fo in itertools.product([1, 2, 3, 5, 16, 31], [1, 3, 8]):
            for (d, form) in conts:
                for opt in ("Adam", "AdamW"):
                    out.append({"kind": kind, "fin": fi, "fout": fo, "k": None, "depth": d, "form": form, "eta": 1, "lr_kind": "int",
                                "opt": opt, "constraint": "default", "seed": seed})
                    out.append({"kind": kind, "fin": fi, "fout": fo, "k": None, "depth": d, "form": form, "eta": 0.3, "lr_kind": "tensor",
                                "opt": opt, "constraint": "default", "seed": seed, "two_layers": True})
    # container-structure coordinates: the layer sits inside a block (nn.Sequential / plain Module) that is
    # the container's direct child; the container is built from deep copies of a prototype and the whole
    # model is deep-copied again before the optimizer is made (EMA / checkpoint copy)
    for kind in ("Linear", "LinearReadout", "Conv1d"):
        for fi, fo in itertools.product([1, 2, 3, 5, 16, 31], [1, 3, 8]):
            for d in [x for x in depths if x is not None]:
                for form in ("DepthSequential_block", "DepthModuleList_block", "clones", "clones_copy", "copy_of_copy",
                             "repeated_seq", "repeated_list", "DepthSequential|frozen_at_build", "DepthModuleList|frozen_at_build"):
                    for opt in ("Adam", "AdamW"):
                        out.append({"kind": kind, "fin": fi, "fout": fo, "k": 3 if kind == "Conv1d" else None, "depth": d, "form": form,
                                    "eta": 0.3, "opt": opt, "constraint": "default", "seed": seed})
    # optimizer built WITHOUT an explicit weight_decay (library default), and from a dict group that mixes the layer's
    # tagged parameters with a plain nn.Parameter (allow_non_unit_scaling_params=True)
    for kind in ("Linear", "LinearReadout", "Conv1d"):
        for fi, fo in itertools.product([1, 2, 3, 5, 16, 31], [1, 3, 8]):
            for (d, form) in conts:
                for opt in ("Adam", "AdamW"):
                    for variant in ("default_wd", "mixed_group", "generator_groups", "generator_bare"):
                        out.append({"kind": kind, "fin": fi, "fout": fo, "k": 3 if kind == "Conv1d" else None, "depth": d, "form": form, "eta": 0.3,
                                    "opt": opt, "constraint": "default", "seed": seed, "variant": variant})
    # a single example passed unbatched, (C, L) instead of (N, C, L)
    for cin, k, co in itertools.product([1, 2, 3, 8, 16], [1, 2, 3, 5, 9], [1, 3, 8]):
        for (d, form) in conts:
            out.append({"kind": "Conv1d", "fin": cin, "fout": co, "k": k, "depth": d, "form": form, "eta": 0.3, "opt": "Adam",
                        "constraint": "default", "seed": seed, "unbatched": True})
    for cin, k, co in itertools.product([1, 2, 3, 8], range(1, 10), [1, 3, 64]):
        for (d, form), eta, opt, con in itertools.product(conts, ETAS, ["Adam", "AdamW"], ["default", None]):
            ndev = (eta != ETAS[0]) + (opt != "Adam") + (con != "default")
            if ndev > (1 if tier == "quick" else 2):
                continue
            out.append({"kind": "Conv1d", "fin": cin, "fout": co, "k": k, "depth": d, "form": form,
                        "eta": eta, "opt": opt, "constraint": con, "seed": seed})
    return out


def run_case(case: Dict[str, Any]) -> Dict[str, Any]:
    import collections

    import torch
    import unit_scaling as uu
    from mc.core import derive_seed, exception_violation

    kind, fi, fo, k = case["kind"], case["fin"], case["fout"], case["k"]
    d, form, eta = case["depth"], case["form"], case["eta"]
    ident = f"{kind}|{form}|{case['opt']}|constraint={case['constraint']}"
    if case.get("lr_kind"):
        ident += f"|lr={case['lr_kind']}"
    if case.get("unbatched"):
        ident += "|unbatched"
    if case.get("variant"):
        ident += f"|{case['variant']}"
    viol: List[Dict[str, str]] = []
    nin = fi * (k or 1)
    if nin <= 3 and fo <= 3:
        xs = list(itertools.product([1.0, -1.0], repeat=nin))
        gs = list(itertools.product([1.0, -1.0], repeat=fo))
    else:
        g = torch.Generator().manual_seed(derive_seed(case["seed"], "C12", fi, fo, k) % (2**31))
        xs = [tuple((torch.randint(0, 2, (nin,), generator=g) * 2.0 - 1).tolist()) for _ in range(2)]
        gs = [tuple((torch.randint(0, 2, (fo,), generator=g) * 2.0 - 1).tolist()) for _ in range(2)]
        gs = gs[:1] if nin * fo > 50000 else gs
        xs = xs[:1] if nin * fo > 50000 else xs
    gm = torch.Generator().manual_seed(99)
    steps = 0
    pairs = list(itertools.product(xs, gs))
    if len(pairs) > 16 and (eta != ETAS[0] or case["opt"] != "Adam" or case["constraint"] != "default" or case.get("lr_kind")):
        # full sign-pattern product on the default hyperparameters; elsewhere every input pattern with the first
        # upstream pattern and every upstream pattern with the first input pattern
        pairs = [(x_, gs[0]) for x_ in xs] + [(xs[0], g_) for g_ in gs[1:]]
    for xp, gp in pairs:
        torch.manual_seed(derive_seed(case["seed"], "C12w", fi, fo) % (2**31))
        kw = {} if case["constraint"] == "default" else {"constraint": case["constraint"]}
        try:
            if kind == "Linear":
                layer = uu.Linear(fi, fo, dtype=torch.float64, **kw)
            elif kind == "LinearReadout":
                layer = uu.LinearReadout(fi, fo, dtype=torch.float64, **kw)
            else:
                layer = uu.Conv1d(fi, fo, k, dtype=torch.float64, **kw)
            holder: Any = layer
            frozen_at_build = form.endswith("|frozen_at_build")
            form = form.split("|")[0]
            if d is not None:
                fillers = [uu.GELU() for _ in range(d - 1)]
                if form == "DepthSequential":
                    holder = uu.DepthSequential(layer, *fillers)
                elif form == "DepthSequential_dict":
                    od = collections.OrderedDict([("layer", layer)] + [(f"f{i}", m) for i, m in enumerate(fillers)])
                    holder = uu.DepthSequential(od)
                elif form == "DepthModuleList":
                    holder = uu.DepthModuleList([layer] + fillers)
                elif form in ("repeated_seq", "repeated_list"):
                    # the same layer object fills every position (weight sharing across depth): depth = len(container)
                    holder = uu.DepthSequential(*[layer] * d) if form == "repeated_seq" else uu.DepthModuleList([layer] * d)
                elif form in ("DepthSequential_block", "DepthModuleList_block"):
                    class Block(torch.nn.Module):
                        def __init__(self, inner: Any) -> None:
                            super().__init__()
                            self.inner = torch.nn.Sequential(inner)

                    blocks = [Block(layer)] + [Block(m) for m in fillers]
                    holder = uu.DepthSequential(*blocks) if form == "DepthSequential_block" else uu.DepthModuleList(blocks)
                else:
                    import copy

                    proto = torch.nn.Sequential(layer)
                    holder = uu.DepthSequential(*[copy.deepcopy(proto) for _ in range(d)])
                    if form == "clones_copy":
                        holder = copy.deepcopy(holder)
                    elif form == "copy_of_copy":
                        holder = copy.deepcopy(copy.deepcopy(holder))
                    layer = holder[0][0]
            Opt = uu.optim.Adam if case["opt"] == "Adam" else uu.optim.AdamW
            lr_arg: Any = eta
            if case.get("lr_kind") == "tensor":
                lr_arg = torch.tensor(eta, dtype=torch.float64)
            plist = list(holder.parameters())
            if case.get("two_layers"):
                # a second, unrelated tagged parameter in the same optimizer (shared lr tensor)
                plist = plist + [uu.Parameter(torch.randn(7, 3, dtype=torch.float64), "weight")]
            if frozen_at_build:
                # staged fine-tuning: frozen when the optimizer is built, unfrozen before training
                for p_ in plist:
                    p_.requires_grad_(False)
            if case.get("variant") == "default_wd":
                opt = Opt(plist, lr=lr_arg, eps=0.0)
            elif case.get("variant") == "mixed_group":
                plain_p = torch.nn.Parameter(torch.randn(4, dtype=torch.float64))
                opt = Opt([{"params": plist + [plain_p]}], lr=lr_arg, eps=0.0, weight_decay=0.0, allow_non_unit_scaling_params=True)
            elif case.get("variant") == "generator_groups":
                # the idiomatic {"params": module.parameters()} (a one-shot generator) next to a list-valued group
                other = uu.Parameter(torch.randn(7, 3, dtype=torch.float64), "weight")
                opt = Opt([{"params": holder.parameters()}, {"params": [other], "lr": 0.5}], lr=lr_arg, eps=0.0, weight_decay=0.0)
            elif case.get("variant") == "generator_bare":
                opt = Opt(holder.parameters(), lr=lr_arg, eps=0.0, weight_decay=0.0)
            else:
                opt = Opt(plist, lr=lr_arg, eps=0.0, weight_decay=0.0)
            if frozen_at_build:
                for p_ in plist:
                    p_.requires_grad_(True)
            if kind == "Conv1d" and case.get("unbatched"):
                x = torch.tensor(xp, dtype=torch.float64).reshape(fi, k)
            elif kind == "Conv1d":
                x = torch.tensor(xp, dtype=torch.float64).reshape(1, fi, k)
            else:
                x = torch.tensor(xp, dtype=torch.float64).reshape(1, fi)
            mag = torch.rand(fo, generator=gm, dtype=torch.float64) * 9.9 + 0.1
            up = (torch.tensor(gp, dtype=torch.float64) * mag).reshape(1, fo, *([1] if kind == "Conv1d" else []))
            if case.get("unbatched"):
                up = up[0]
            y0 = layer(x)
            (y0 * up).sum().backward()
            opt.step()
            y1 = layer(x).detach()
        except Exception as e:  # noqa
            return {"violations": [exception_violation(e, ident)], "steps": 1, "outcome": "raises"}
        steps += 1
        delta = (y1 - y0.detach())
        want = eta / (d if d else 1) ** 0.5
        err = (delta.abs() - want).abs().max().item()
        if err > 1e-9 * max(want, 1e-30) + 1e-12 * y0.detach().abs().max().item():
            viol.append({"key": ident + f"|update_size|depth={'none' if d is None else 'int'}",
                         "msg": f"fan_in={fi} fan_out={fo} k={k} depth={d} eta={eta}: |delta y| in "
                                f"[{delta.abs().min().item():.6g}, {delta.abs().max().item():.6g}], expected {want:.6g}"})
            break
        if not bool((torch.sign(delta) == -torch.sign(up)).all()):
            viol.append({"key": ident + "|update_direction", "msg": f"fan_in={fi} fan_out={fo} k={k}"})
            break
    return {"violations": viol, "steps": steps, "nontrivial": nin > 1 or (d or 1) > 1,
            "outcome": f"{kind}:{'ok' if not viol else 'bad'}"}
