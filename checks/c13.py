"""C13 — nearest-rounding quantisation returns the nearest representable value.

Explorer kinds X (sweep of the complete float32 input space for E4M3/E5M2, thorough) and
L (all formats E in 2..8 x M in 0..23 on structured input sets; tensor rank / layout /
dtype coordinates).  Oracle: models/fpmodel.py (exact arithmetic, nothing from formats.py).
"""

from __future__ import annotations

from typing import Any, Dict, List

PROPERTY = "C13"
RULE = (
    "case = (format, input block) or (format, layout/dtype variant); each case quantises a "
    "tensor of inputs and checks every element; states counts input elements; non-trivial = "
    "block contains inputs that are not representable (rounding actually happens)"
)
BOUND = {
    "quick": "all 7x24 formats on structured sets (all representable values when E+M<=12 else "
    "per-binade boundary values; all midpoints; +-4 float32 ulps around each; 2^10 seeded "
    "mantissas per float32 exponent; +-0, +-inf); layouts rank 0-3/empty/non-contiguous; "
    "dtypes f64/f32/bf16/f16; E4M3 and E5M2: 1/64 strided sweep of all float32 bit patterns",
    "thorough": "as quick with 2^14 mantissas per exponent, plus EVERY float32 bit pattern "
    "(2^32, NaNs excluded) for E4M3 and E5M2",
}
EXHAUSTIVE = {"quick": False, "thorough": True}
ASSUMPTIONS = [
    "formats other than E4M3/E5M2: structured + seeded input sets, not all 2^32 patterns (A1)",
    "float64 inputs are float32-representable values (quantisation is defined in float32 arithmetic)",
    "tie direction is not prescribed by the statement: either neighbour accepted at exact midpoints",
]
CHUNK = 1


def _formats() -> List[List[int]]:
    return [[E, M] for E in range(2, 9) for M in range(0, 24)]


def cases(tier: str, seed: int) -> List[Dict[str, Any]]:
    out: List[Dict[str, Any]] = []
    nm = 14 if tier == "thorough" else 10
    for E, M in _formats():
        out.append({"kind": "set", "E": E, "M": M, "nm": nm, "seed": seed})
        out.append({"kind": "layout", "E": E, "M": M, "seed": seed})
        out.append({"kind": "props", "E": E, "M": M})
    # histories: several formats used in sequence in one process (no state may leak between them)
    for seq in ([[4, 3], [5, 2], [4, 3]], [[2, 1], [8, 23], [2, 1], [5, 10]], [[8, 0], [3, 4], [8, 7], [3, 4]]):
        out.append({"kind": "history", "E": seq[0][0], "M": seq[0][1], "seq": seq, "seed": seed, "fresh": True})
    # object histories: ONE format object whose fields are reassigned after it has been used (FPFormat is a
    # plain mutable dataclass), also through copy.copy / dataclasses.replace; results must follow the current fields
    for seq in ([[4, 3], [5, 3], [5, 2], [2, 1], [4, 3]], [[2, 1], [3, 4], [8, 7], [5, 10]], [[5, 2], [4, 2], [4, 3]]):
        for how in ("assign", "copy_assign", "replace"):
            out.append({"kind": "mutate", "E": seq[0][0], "M": seq[0][1], "seq": seq, "how": how, "seed": seed})
    # results never alias the argument, an earlier result, or a per-format buffer
    for E, M in ([4, 3], [5, 2], [2, 1], [8, 7]):
        out.append({"kind": "alias", "E": E, "M": M, "seed": seed})
    nblk = 256
    for E, M in ([4, 3], [5, 2]):
        for b in range(nblk):
            out.append({"kind": "sweep", "E": E, "M": M, "block": b, "nblk": nblk,
                        "stride": 1 if tier == "thorough" else 64})
    return out


def _struct_inputs(E: int, M: int, nm: int, seed: int) -> Any:
    """float32 tensor of structured inputs for format (E, M)."""
    import torch
    from models import fpmodel as fp
    from mc.core import derive_seed

    mx = fp.max_value(E, M)
    if E + M <= 12:
        vals = fp.value_set(E, M)
    else:
        # per-binade boundary values: first/last 3 mantissas of each binade + subnormal ends
        ks = sorted({k for k in (0, 1, 2, 3, 2**M - 3, 2**M - 2, 2**M - 1, 2 ** (M - 1), 2 ** (M - 1) + 1)
                     if 0 <= k < 2**M})
        lst: List[float] = []
        for k in ks:
            lst.append(k * 2.0 ** (fp.emin(E) - M))
        for e in range(fp.emin(E), fp.emax(E) + 1):
            for k in ks:
                lst.append((2**M + k) * 2.0 ** (e - M))
        vals = torch.tensor(sorted(set(lst)), dtype=torch.float64)
    mids = (vals[1:] + vals[:-1]) / 2
    if E + M > 12:
        # midpoints must be between *adjacent* grid values: rebuild from value + spacing/2
        sp = fp.spacing(vals, E, M)
        mids = vals + sp / 2
    base = torch.cat([vals, mids, torch.tensor([mx, mx * 1.0001, mx * 2, 0.0])])
    base32 = base.to(torch.float32)
    bits = base32.view(torch.int32).to(torch.int64)
    neigh = torch.cat([bits + d for d in range(-4, 5)]).clamp(0, 0x7F7FFFFF)
    neigh = neigh.to(torch.int32).view(torch.float32)
    # seeded mantissas per float32 exponent
    g = torch.Generator().manual_seed(derive_seed(seed, "C13", E, M) % (2**31))
    n = 2 ** min(nm, 10 if E + M > 12 and nm <= 10 else nm)
    exps = torch.arange(0, 255, dtype=torch.int64).repeat_interleave(n)
    mant = torch.randint(0, 2**23, (exps.numel(),), generator=g, dtype=torch.int64)
    rnd = ((exps << 23) | mant).to(torch.int32).view(torch.float32)
    x = torch.cat([neigh, rnd, torch.tensor([0.0, float("inf")])])
    x = torch.cat([x, -x])
    if E == 8:
        x = x[x.abs() < 2.0**126]
    return x


def _check(x: Any, q: Any, E: int, M: int, tag: str, fmt: Any, full: bool = True) -> List[Dict[str, str]]:
    """Oracle on one (input tensor, output tensor) pair; x float32, finite or +-inf."""
    import torch
    from models import fpmodel as fp

    v: List[Dict[str, str]] = []

    def add(name: str, mask: Any) -> None:
        if bool(mask.any()):
            i = int(mask.nonzero()[0, 0]) if mask.dim() else 0
            xi = x.flatten()[i].item()
            qi = q.flatten()[i].item()
            v.append({"key": f"{tag}|{name}", "msg": f"E{E}M{M}: x={xi!r} ({xi.hex() if xi == xi and abs(xi) != float('inf') else xi}) -> q={qi!r}"})

    if q.shape != x.shape or q.dtype != x.dtype:
        return [{"key": f"{tag}|shape_or_dtype", "msg": f"E{E}M{M}: in {tuple(x.shape)} {x.dtype} out {tuple(q.shape)} {q.dtype}"}]
    x64, q64 = x.to(torch.float64).flatten(), q.to(torch.float64).flatten()
    lower, upper, sp = fp.neighbours(x64, E, M)
    mx = fp.max_value(E, M)
    aq = q64.abs()
    ax = x64.abs().clamp(max=mx)
    add("not_representable", ~fp.is_representable(q64, E, M))
    add("not_a_neighbour", (aq != lower) & (aq != upper))
    add("sign_flipped", (aq != 0) & (torch.signbit(q64) != torch.signbit(x64)))
    # +-0 are inputs of the quantifier: a zero result carries the sign of its input (q(-0.0) is -0.0, a negative
    # value that underflows gives -0.0), which only a sign-BIT comparison can see (-0.0 == 0.0)
    add("zero_sign_flipped", (aq == 0) & (torch.signbit(q64) != torch.signbit(x64)))
    dnear = torch.minimum(ax - lower, upper - ax)
    add("farther_than_nearest", (aq - ax).abs() > dnear + sp * 2.0 ** (M - 23))
    add("not_saturated", (x64.abs() >= mx) & (aq != mx))
    add("fixed_point_moved", (ax == lower) & (aq != lower))
    if full:
        q2 = fmt.quantise(q.clone())
        q2_64 = q2.to(torch.float64).flatten()
        add("not_idempotent", (q2_64 != q64) | (torch.signbit(q2_64) != torch.signbit(q64)))
        qn = fmt.quantise(-x)
        qn64 = qn.to(torch.float64).flatten()
        add("not_odd", (qn64 != -q64) | (torch.signbit(qn64) == torch.signbit(q64)))
    return v


def run_case(case: Dict[str, Any]) -> Dict[str, Any]:
    import torch
    from unit_scaling.formats import FPFormat
    from models import fpmodel as fp
    from mc.core import exception_violation

    E, M = case["E"], case["M"]
    fmt = FPFormat(E, M, rounding="nearest")
    kind = case["kind"]
    if kind == "props":
        viol = []
        want = {"max_absolute_value": fp.max_value(E, M), "min_absolute_normal": fp.min_normal(E),
                "min_absolute_subnormal": fp.min_subnormal(E, M)}
        if E + M <= 14:
            vs = fp.value_set(E, M)
            assert vs[-1].item() == want["max_absolute_value"]
            assert vs[1].item() == want["min_absolute_subnormal"] or M == 0
            assert vs[2**M].item() == want["min_absolute_normal"]
        for k, w in want.items():
            got = getattr(fmt, k)
            if float(got) != w:
                viol.append({"key": f"props|{k}", "msg": f"E{E}M{M}: {got!r} != {w!r}"})
        if fmt.bits != 1 + E + M:
            viol.append({"key": "props|bits", "msg": f"E{E}M{M}: {fmt.bits}"})
        return {"violations": viol, "steps": 4, "n_states": 1, "outcome": "props"}

    if kind == "mutate":
        import copy
        import dataclasses

        viol = []
        n = 0
        f_ = FPFormat(E, M, rounding="nearest")
        for pos, (e_, m_) in enumerate(case["seq"]):
            if pos > 0:
                if case["how"] == "assign":
                    f_.exponent_bits, f_.mantissa_bits = e_, m_
                elif case["how"] == "copy_assign":
                    f_ = copy.copy(f_)
                    f_.exponent_bits, f_.mantissa_bits = e_, m_
                else:
                    f_ = dataclasses.replace(f_, exponent_bits=e_, mantissa_bits=m_)
            want = {"max_absolute_value": fp.max_value(e_, m_), "min_absolute_normal": fp.min_normal(e_),
                    "min_absolute_subnormal": fp.min_subnormal(e_, m_)}
            for k, w in want.items():
                if float(getattr(f_, k)) != w:
                    viol.append({"key": f"mutate|{case['how']}|props|{k}", "msg": f"after {case['seq'][:pos + 1]}: {getattr(f_, k)!r} != {w!r}"})
            x = _struct_inputs(e_, m_, 6, case["seed"])
            x = torch.cat([x, torch.tensor([1e30, -1e30, 3e5, -3e5, 1e-30])])
            q = f_.quantise(x)
            n += x.numel()
            for v in _check(x, q, e_, m_, f"mutate|{case['how']}|pos{pos}", f_, full=False):
                viol.append(v)
            if viol:
                break
        return {"violations": viol[:4], "steps": n, "n_states": n, "nontrivial": True, "outcome": "mutate"}
    if kind == "alias":
        viol = []
        g = torch.Generator().manual_seed(5)
        for shape in ((7,), (3, 5), ()):
            a = torch.randn(shape, generator=g)
            b = torch.randn(shape, generator=g) * 300
            q1 = fmt.quantise(a)
            keep = q1.clone()
            q2 = fmt.quantise(b)
            q3 = FPFormat(E, M, rounding="nearest").quantise(b * 0.5)
            if not torch.equal(q1, keep):
                viol.append({"key": "alias|earlier_result_overwritten", "msg": f"E{E}M{M} shape={shape}: quantise(a) changed after quantise(b) on the same format object"})
            ptrs = [t.untyped_storage().data_ptr() for t in (a, b, q1, q2, q3)]
            if len(set(ptrs)) != len(ptrs):
                viol.append({"key": "alias|result_shares_storage", "msg": f"E{E}M{M} shape={shape}: storages {ptrs}"})
            # a representable input is returned by value, not by reference
            r = fmt.quantise(q1)
            if r.untyped_storage().data_ptr() == q1.untyped_storage().data_ptr():
                viol.append({"key": "alias|returns_its_argument", "msg": f"E{E}M{M} shape={shape}"})
        return {"violations": viol[:3], "steps": 9, "n_states": 9, "nontrivial": True, "outcome": "alias"}
    if kind == "history":
        viol = []
        n = 0
        for pos, (e_, m_) in enumerate(case["seq"]):
            f_ = FPFormat(e_, m_, rounding="nearest")
            x = _struct_inputs(e_, m_, 6, case["seed"])
            q = f_.quantise(x)
            n += x.numel()
            for v in _check(x, q, e_, m_, f"history_pos{pos}", f_, full=False):
                viol.append(v)
            # the stochastic twin of the same format must not disturb a later nearest call
            FPFormat(e_, m_, rounding="stochastic").quantise(x[:16])
        return {"violations": viol[:4], "steps": n, "n_states": n, "outcome": "history"}
    if kind == "set":
        x = _struct_inputs(E, M, case["nm"], case["seed"])
        x0 = x.clone()
        ver = x._version
        try:
            q = fmt.quantise(x)
        except Exception as e:  # noqa
            return {"violations": [exception_violation(e, "set")], "steps": 1, "outcome": "raises"}
        viol = _check(x, q, E, M, "set", fmt)
        if x._version != ver or not torch.equal(x.view(torch.int32), x0.view(torch.int32)):
            viol.append({"key": "set|argument_modified", "msg": f"E{E}M{M}"})
        # monotone: sort inputs, outputs must be non-decreasing
        xs, idx = torch.sort(x)
        qs = q[idx]
        if bool((qs[1:] < qs[:-1]).any()):
            i = int((qs[1:] < qs[:-1]).nonzero()[0, 0])
            viol.append({"key": "set|not_monotone", "msg": f"E{E}M{M}: q({xs[i].item()!r})={qs[i].item()!r} > q({xs[i+1].item()!r})={qs[i+1].item()!r}"})
        lo, up, _ = fp.neighbours(x.to(torch.float64), E, M)
        nontriv = bool(((x.abs().to(torch.float64).clamp(max=fp.max_value(E, M))) != lo).any())
        return {"violations": viol[:6], "steps": x.numel(), "n_states": x.numel(), "nontrivial": nontriv,
                "outcome": "set_ok" if not viol else "set_bad"}

    if kind == "sweep":
        nblk, b, stride = case["nblk"], case["block"], case["stride"]
        per = 2**32 // nblk
        start = b * per
        viol: List[Dict[str, str]] = []
        n = 0
        sub = 2**22
        prev_last = None
        for s0 in range(start, start + per, sub):
            bits = torch.arange(s0, s0 + sub + (1 if stride == 1 else 0), stride, dtype=torch.int64)
            bits = bits[bits < 2**32]
            # map unsigned pattern to int32
            bits = torch.where(bits >= 2**31, bits - 2**32, bits).to(torch.int32)
            x = bits.view(torch.float32)
            x = x[~torch.isnan(x)]
            if x.numel() == 0:
                continue
            q = fmt.quantise(x)
            viol += _check(x, q, E, M, "sweep", fmt, full=False)
            # monotone along the successor relation: for positive patterns increasing bits =>
            # increasing value; for negative patterns increasing bits => decreasing value
            d = q[1:] - q[:-1]
            pos = ~torch.signbit(x[:-1]) & ~torch.signbit(x[1:])
            neg = torch.signbit(x[:-1]) & torch.signbit(x[1:])
            bad = (pos & (d < 0)) | (neg & (d > 0))
            if bool(bad.any()):
                i = int(bad.nonzero()[0, 0])
                viol.append({"key": "sweep|not_monotone", "msg": f"E{E}M{M}: x={x[i].item()!r},{x[i+1].item()!r} q={q[i].item()!r},{q[i+1].item()!r}"})
            n += x.numel()
            if viol:
                break
        return {"violations": viol[:6], "steps": n, "n_states": n, "outcome": "sweep_ok" if not viol else "sweep_bad"}

    # ---- layout / dtype variants
    viol = []
    n = 0
    g = torch.Generator().manual_seed(1234 + 100 * E + M)
    mx = fp.max_value(E, M)
    scale = min(mx, 1e30) / 4
    if E == 8:
        scale = 1e30

    def draw(*shape: int) -> Any:
        t = torch.randn(shape, generator=g) * torch.tensor(10.0) ** torch.randint(-3, 2, shape, generator=g).float()
        return (t * min(scale, 8.0)).to(torch.float32)

    layouts = {
        "rank0": draw(), "rank1": draw(7), "rank2": draw(3, 5), "rank3": draw(2, 3, 4),
        "empty": torch.zeros(0), "empty2d": torch.zeros(3, 0),
        "transposed": draw(4, 6).t(), "strided": draw(10)[::2], "permuted": draw(2, 3, 4).permute(2, 0, 1),
        "expanded": draw(1, 5).expand(3, 5), "sliced2d": draw(5, 6)[1:4, ::2],
    }
    for name, x in layouts.items():
        x0, ver = x.clone(), x._version
        try:
            q = fmt.quantise(x)
        except Exception as e:  # noqa
            viol.append(exception_violation(e, f"layout={name}"))
            continue
        n += max(1, x.numel())
        viol += _check(x.contiguous(), q.contiguous(), E, M, f"layout={name}", fmt, full=False)
        if q.shape != x.shape:
            viol.append({"key": f"layout={name}|shape", "msg": f"{tuple(q.shape)} vs {tuple(x.shape)}"})
        if x._version != ver or not torch.equal(x, x0):
            viol.append({"key": f"layout={name}|argument_modified", "msg": f"E{E}M{M}"})
        if q.numel() and q.data_ptr() == x.data_ptr():
            viol.append({"key": f"layout={name}|aliases_input", "msg": f"E{E}M{M}"})
    # ambient environment: results must not depend on autograd mode or the default dtype
    xe = draw(33)
    q_ref = fmt.quantise(xe)
    for env in ("no_grad", "inference_mode", "default_float64", "default_bfloat16", "requires_grad_input"):
        try:
            if env == "no_grad":
                with torch.no_grad():
                    qe = fmt.quantise(xe)
            elif env == "inference_mode":
                with torch.inference_mode():
                    qe = fmt.quantise(xe.clone())
            elif env.startswith("default_"):
                old = torch.get_default_dtype()
                try:
                    torch.set_default_dtype(getattr(torch, env.split("_")[1]))
                    qe = fmt.quantise(xe)
                finally:
                    torch.set_default_dtype(old)
            else:
                with torch.no_grad():
                    qe = fmt.quantise(xe.clone().requires_grad_(True))
        except Exception as e:  # noqa
            viol.append(exception_violation(e, f"env={env}"))
            continue
        n += xe.numel()
        if qe.dtype != q_ref.dtype or not torch.equal(qe.detach(), q_ref):
            viol.append({"key": f"env={env}|result_depends_on_environment", "msg": f"E{E}M{M}"})
    # dtypes
    base = torch.cat([draw(64), torch.tensor([0.0, -0.0, mx if mx < 3e38 else 1e38, float("inf"), -float("inf")])])
    if E == 8:
        base = base[base.abs() < 2.0**126]
    for dt in (torch.float64, torch.bfloat16, torch.float16):
        name = str(dt).replace("torch.", "")
        if dt is not torch.float64:
            # only formats whose values are exactly representable in the dtype
            fi = torch.finfo(dt)
            mant = 7 if dt is torch.bfloat16 else 10
            if M > mant or mx > fi.max or fp.min_subnormal(E, M) < float(fi.smallest_normal) * 2.0 ** -mant:
                continue
        xd = base.to(dt)
        xd = xd.reshape(-1)
        x0 = xd.clone()
        try:
            q = fmt.quantise(xd)
        except Exception as e:  # noqa
            viol.append(exception_violation(e, f"dtype={name}"))
            continue
        n += xd.numel()
        if q.dtype != dt or q.shape != xd.shape:
            viol.append({"key": f"dtype={name}|shape_or_dtype", "msg": f"E{E}M{M}: in {tuple(xd.shape)} {dt} -> {tuple(q.shape)} {q.dtype}"})
            continue
        x32 = xd.to(torch.float32)
        viol += _check(x32, q.to(torch.float32), E, M, f"dtype={name}", fmt, full=False)
        if not torch.equal(xd, x0):
            viol.append({"key": f"dtype={name}|argument_modified", "msg": f"E{E}M{M}"})
    return {"violations": viol[:8], "steps": n, "n_states": n, "outcome": "layout_ok" if not viol else "layout_bad"}
