"""C14 — stochastic rounding picks a neighbour with exactly proportional probability.

Explorer kind E: the random source is owned.  `torch.randint` is substituted (from the
harness, no repo hook) by an enumerator that returns every draw 0..2^srbits-1, so for each
input all executions of the random choice are run and the probability is counted, not
estimated.  Oracle: models/fpmodel.py neighbours + exact rational fractional position.
"""

from __future__ import annotations

from typing import Any, Dict, List
from unittest import mock

PROPERTY = "C14"
RULE = (
    "case = (format, srbits, input block); for every input ALL 2^srbits draws are executed; "
    "states = (input, draw) pairs; non-trivial = input not representable (both neighbours reachable)"
)
BOUND = {
    "quick": "E in 2..7 x M in 0..10 x srbits in {1,2,3,5,8,12} and default (23-M, enumerated when "
    "<= 16 bits in quick); structured inputs (representable values, midpoints, quarter points, "
    "+-2 float32 ulps, subnormal range, top binade, 8 seeded mantissas / exponent), capped 600/case",
    "thorough": "srbits in 1..12 and default up to 20 bits; 64 seeded mantissas / exponent; cap 4000/case",
}
EXHAUSTIVE = {"quick": True, "thorough": True}
ASSUMPTIONS = [
    "inputs: structured + seeded set per format, not all float32 patterns (A1)",
    "for inputs whose down-scaled value is not exactly representable in float32 (format-subnormal "
    "range, low mantissa bits set) the fractional position is compared with tolerance 2^(M-24), "
    "the float32-arithmetic allowance of C13",
    "independence across elements is checked as: one draw is requested per element (shape of the "
    "randint request == x.shape) and results for an element do not depend on the other elements",
]
CHUNK = 1


def cases(tier: str, seed: int) -> List[Dict[str, Any]]:
    out: List[Dict[str, Any]] = []
    srs = [1, 2, 3, 5, 8, 12] if tier == "quick" else list(range(1, 13))
    dmax = 16 if tier == "quick" else 20
    for E in range(2, 8):
        for M in range(0, 11):
            for sr in srs:
                if sr < 23 - M:
                    out.append({"E": E, "M": M, "srbits": sr, "tier": tier, "seed": seed})
            if 23 - M <= dmax:
                out.append({"E": E, "M": M, "srbits": 0, "tier": tier, "seed": seed})
            out.append({"E": E, "M": M, "srbits": 0, "kind": "indep", "seed": seed})
    # histories: formats sharing (E, M) but differing in srbits / rounding used in sequence in one
    # process; and float16 / bfloat16 / float64 inputs (quantisation still happens in float32)
    for E, M in ((4, 3), (5, 2), (2, 1), (5, 10)):
        out.append({"E": E, "M": M, "srbits": 0, "kind": "history", "seq": [0, 3, 0, 1, 8, 0], "tier": tier, "seed": seed, "fresh": True})
        out.append({"E": E, "M": M, "srbits": 3, "kind": "history", "seq": [3, 0, "nearest", 3, 5], "tier": tier, "seed": seed, "fresh": True})
        for dt in ("float16", "bfloat16", "float64"):
            for sr in (2, 5):
                out.append({"E": E, "M": M, "srbits": sr, "tier": tier, "seed": seed, "dtype": dt})
    for E in range(2, 8):
        for M in (0, 1, 2, 3, 8, 10):
            for sr in (1, 3, 0):
                if (sr and sr < 23 - M) or (not sr and 23 - M <= 16):
                    for sub in ("subnormal_range", "normal_range", "at_least_min_subnormal", "below_min_normal_nonzero"):
                        out.append({"E": E, "M": M, "srbits": sr, "tier": tier, "seed": seed, "subset": sub})
    # saturation under stochastic rounding (inputs beyond +-max clamp to +-max for EVERY draw), also with another
    # process default dtype; and results never alias the input, an earlier result, or a per-format buffer
    for E in range(2, 8):
        for M in (0, 1, 2, 3, 8, 10):
            for sr in (1, 3):
                if sr < 23 - M:
                    for dd in (None, "bfloat16", "float16", "float64"):
                        out.append({"E": E, "M": M, "srbits": sr, "kind": "saturate", "default_dtype": dd, "seed": seed})
    for E, M in ((4, 3), (5, 2), (2, 1), (5, 10)):
        for sr in (0, 3):
            out.append({"E": E, "M": M, "srbits": sr, "kind": "alias", "seed": seed})
    # a format OBJECT that was used with other fields before (FPFormat is a mutable dataclass)
    for (E0, M0), (E, M) in (((4, 3), (3, 3)), ((3, 3), (3, 2)), ((5, 2), (4, 3)), ((2, 1), (5, 2)), ((5, 10), (4, 3))):
        for sr in (1, 3):
            out.append({"E": E, "M": M, "srbits": sr, "kind": "saturate", "default_dtype": None, "mutated_from": [E0, M0], "seed": seed})
    # ambient autograd mode (quantisation inside autograd.Function bodies and evaluation loops runs with grad
    # mode off) and an input that requires grad: the distribution is the same
    for E, M in ((4, 3), (5, 2), (2, 1), (3, 4), (5, 10), (7, 0)):
        for sr in (1, 3, 8):
            for gm in ("no_grad", "inference_mode", "input_requires_grad"):
                out.append({"E": E, "M": M, "srbits": sr, "tier": tier, "seed": seed, "grad_mode": gm})
    return out


def _inputs(E: int, M: int, tier: str, seed: int, cap: int) -> Any:
    import torch
    from models import fpmodel as fp
    from mc.core import derive_seed

    mx = fp.max_value(E, M)
    if E + M <= 9:
        vals = fp.value_set(E, M)
    else:
        ks = sorted({k for k in (0, 1, 2, 2**M - 2, 2**M - 1, 2 ** max(M - 1, 0)) if 0 <= k < 2**M})
        lst = [k * 2.0 ** (fp.emin(E) - M) for k in ks]
        for e in (fp.emin(E), fp.emin(E) + 1, -1, 0, 1, fp.emax(E) - 1, fp.emax(E)):
            if fp.emin(E) <= e <= fp.emax(E):
                lst += [(2**M + k) * 2.0 ** (e - M) for k in ks]
        vals = torch.tensor(sorted(set(lst)), dtype=torch.float64)
    sp = fp.spacing(vals, E, M)
    pts = torch.cat([vals, vals + sp / 2, vals + sp / 4, vals + 3 * sp / 4, vals + sp / 8,
                     vals + sp * (1 - 2.0**-10)])
    pts = pts[pts <= mx]
    p32 = pts.to(torch.float32)
    bits = p32.view(torch.int32).to(torch.int64)
    neigh = torch.cat([bits + d for d in (-2, -1, 0, 1, 2)]).clamp(1, 0x7F7FFFFF).to(torch.int32).view(torch.float32)
    g = torch.Generator().manual_seed(derive_seed(seed, "C14", E, M) % (2**31))
    nper = 8 if tier == "quick" else 64
    e_lo = 127 + fp.emin(E) - M - 2
    e_hi = 127 + fp.emax(E) + 1
    exps = torch.arange(max(e_lo, 1), min(e_hi, 254) + 1, dtype=torch.int64).repeat_interleave(nper)
    mant = torch.randint(0, 2**23, (exps.numel(),), generator=g, dtype=torch.int64)
    rnd = ((exps << 23) | mant).to(torch.int32).view(torch.float32)
    x = torch.cat([neigh, rnd])
    x = x[torch.isfinite(x) & (x.abs() <= mx)]  # finite range
    x = torch.unique(x)
    if x.numel() > cap:
        idx = torch.linspace(0, x.numel() - 1, cap).round().long()
        x = x[idx]
    x = torch.cat([x, -x[::3]])
    return x


def run_case(case: Dict[str, Any]) -> Dict[str, Any]:
    import torch
    from fractions import Fraction
    from unit_scaling.formats import FPFormat
    from models import fpmodel as fp
    from mc.core import exception_violation

    E, M, sr = case["E"], case["M"], case["srbits"]
    viol: List[Dict[str, str]] = []
    if case.get("kind") == "history":
        steps = 0
        for pos, s_ in enumerate(case["seq"]):
            if s_ == "nearest":
                FPFormat(E, M, rounding="nearest").quantise(torch.linspace(-2, 2, 33))
                continue
            if s_ and s_ >= 23 - M:
                continue
            r = run_case({"E": E, "M": M, "srbits": s_, "tier": "quick", "seed": case["seed"], "cap": 64})
            steps += r.get("steps", 0)
            for v in r["violations"]:
                viol.append({"key": v["key"] + f"|history_pos={pos}", "msg": v["msg"] + f" (after formats with srbits {case['seq'][:pos]})"})
            if viol:
                break
        return {"violations": viol[:4], "steps": steps, "n_states": steps, "outcome": "history"}
    fmt = FPFormat(E, M, rounding="stochastic", srbits=sr)
    nbits = fmt.srbits
    if nbits != (sr if sr else 23 - M):
        viol.append({"key": "srbits_default", "msg": f"E{E}M{M}: srbits={nbits}"})
    tag = f"srbits={'default' if sr == 0 else ('small' if sr <= 3 else 'mid')}"
    if case.get("grad_mode"):
        tag += f"|{case['grad_mode']}"
    real_randint = torch.randint

    if case.get("kind") == "saturate":
        if case.get("mutated_from"):
            e0, m0 = case["mutated_from"]
            fmt = FPFormat(e0, m0, rounding="stochastic", srbits=sr)
            fmt.quantise(torch.linspace(-300.0, 300.0, 41))
            _ = (fmt.max_absolute_value, fmt.min_absolute_normal, fmt.min_absolute_subnormal)
            fmt.exponent_bits, fmt.mantissa_bits = E, M
            tag += f"|object_used_before_as_E{e0}M{m0}"
        mx = fp.max_value(E, M)
        vals = [mx * (1 + 2.0 ** -(M + 1)), mx * (1 + 2.0 ** -(M + 2)), mx * 1.5, mx * 2, mx * 6.5, mx * 2.0 ** 20, 3e38, float("inf")]
        xs = torch.tensor([v for v in vals if v == float("inf") or v < 3.4e38], dtype=torch.float32)
        xs = torch.cat([xs, -xs])
        D = 2**nbits
        xr = xs[:, None].expand(xs.numel(), D).contiguous()

        def enum_s(low: int, high: int, size: Any, **kw: Any) -> Any:
            return torch.arange(D, dtype=kw.get("dtype", torch.int64))[None, :].expand(xs.numel(), D).contiguous()

        old_dd = torch.get_default_dtype()
        try:
            if case.get("default_dtype"):
                torch.set_default_dtype(getattr(torch, case["default_dtype"]))
            with mock.patch.object(torch, "randint", enum_s):
                q = fmt.quantise(xr)
        except Exception as e:  # noqa
            return {"violations": [exception_violation(e, tag + "|saturate")], "steps": 1, "outcome": "raises"}
        finally:
            torch.set_default_dtype(old_dd)
        want = torch.where(xs > 0, torch.tensor(mx), torch.tensor(-mx)).to(torch.float64)[:, None]
        bad = (q.to(torch.float64) != want).any(1)
        if bool(bad.any()):
            i = int(bad.nonzero()[0, 0])
            viol.append({"key": f"{tag}|saturation|default_dtype={case.get('default_dtype')}", "msg":
                         f"E{E}M{M} srbits={nbits}: x={xs[i].item()!r} gives {sorted(set(q[i].tolist()))[:4]}, expected {want[i, 0].item()!r} for every draw"})
        return {"violations": viol, "steps": xs.numel() * D, "n_states": xs.numel() * D, "nontrivial": True, "outcome": "saturate"}

    if case.get("kind") == "alias":
        g = torch.Generator().manual_seed(5)
        for shape in ((7,), (3, 5)):
            a = torch.randn(shape, generator=g)
            b = torch.randn(shape, generator=g) * 3
            torch.manual_seed(1)
            q1 = fmt.quantise(a)
            keep = q1.clone()
            q2 = fmt.quantise(b)
            q3 = FPFormat(E, M, rounding="stochastic", srbits=case["srbits"]).quantise(b * 0.5)
            if not torch.equal(q1, keep):
                viol.append({"key": f"{tag}|earlier_result_overwritten", "msg": f"E{E}M{M}: quantise(a) changed after quantise(b) on the same format object"})
            ptrs = [t.untyped_storage().data_ptr() for t in (a, b, q1, q2, q3)]
            if len(set(ptrs)) != len(ptrs):
                viol.append({"key": f"{tag}|result_shares_storage", "msg": f"E{E}M{M}: storages of (a, b, q(a), q(b), q'(b/2)) = {ptrs}"})
        return {"violations": viol[:2], "steps": 6, "n_states": 6, "nontrivial": True, "outcome": "alias"}

    if case.get("kind") == "indep":
        # the real random source is used, but intercepted: one draw per element must be requested
        reqs: List[Any] = []

        def spy(*a: Any, **k: Any) -> Any:
            reqs.append((a, {kk: vv for kk, vv in k.items() if kk in ("dtype",)}))
            return real_randint(*a, **k)

        base = torch.full((5, 40), 1.0 + 2.0 ** -(M + 2), dtype=torch.float32)  # exact 1/4 position
        layouts = {
            "contiguous": base,
            "transposed": base.t().contiguous().t(),
            "expanded_rows": base[:1].expand(5, 40),  # stride-0 views: still one element = one draw
            "expanded_cols": base[:, :1].expand(5, 40),
            "expanded_scalar": base[0, 0].expand(5, 40),
            "sliced": torch.full((5, 80), 1.0 + 2.0 ** -(M + 2), dtype=torch.float32)[:, ::2],
        }
        for lname, x in layouts.items():
            reqs.clear()
            torch.manual_seed(0)
            with mock.patch.object(torch, "randint", spy):
                q = fmt.quantise(x)
            ok = len(reqs) == 1 and tuple(reqs[0][0][2]) == (5, 40) and reqs[0][0][0] == 0 and reqs[0][0][1] == 2**nbits
            if not ok:
                viol.append({"key": f"indep|draw_request|{lname}", "msg": f"E{E}M{M}: randint requests {reqs!r}"})
            elif 23 - M >= 3 and len(torch.unique(q)) < 2:
                viol.append({"key": f"indep|elements_share_a_draw|{lname}", "msg": f"E{E}M{M}: equal inputs at 1/4 position: all 200 rounded the same way"})
        return {"violations": viol[:3], "steps": 1200, "n_states": 1200, "outcome": "indep"}

    cap = case.get("cap") or (600 if case["tier"] == "quick" else 4000)
    # keep (inputs x draws) bounded
    cap = max(16, min(cap, 2**24 // 2**nbits))
    x = _inputs(E, M, case["tier"], case["seed"], cap)
    in_dtype = getattr(torch, case.get("dtype", "float32"))
    if in_dtype is not torch.float32:
        tag += f"|dtype={case['dtype']}"
        x = torch.unique(x.to(in_dtype).to(torch.float32))  # inputs exactly representable in the tensor dtype
        x = x[torch.isfinite(x) & (x.abs() <= fp.max_value(E, M))]
    if case.get("subset"):
        # quantisation is element-wise: a tensor holding only one magnitude class (no zeros, nothing below the smallest
        # subnormal, ...) must be treated exactly like the same values inside a mixed tensor
        tag += f"|only={case['subset']}"
        ax_ = x.abs().to(torch.float64)
        lo_, mid_ = fp.min_subnormal(E, M), fp.min_normal(E)
        keep = {"subnormal_range": (ax_ >= lo_) & (ax_ < mid_), "normal_range": ax_ >= mid_,
                "at_least_min_subnormal": ax_ >= lo_, "below_min_normal_nonzero": (ax_ > 0) & (ax_ < mid_)}[case["subset"]]
        x = x[keep]
        if x.numel() == 0:
            return {"skipped": "no input in this magnitude class"}
    n, D = x.numel(), 2**nbits
    xr = x[:, None].expand(n, D).contiguous()

    def enum(low: int, high: int, size: Any, **kw: Any) -> Any:
        assert low == 0 and high == D and tuple(size) == (n, D), (low, high, size)
        return torch.arange(D, dtype=kw.get("dtype", torch.int64))[None, :].expand(n, D).contiguous()

    try:
        import contextlib

        gm = case.get("grad_mode")
        ctx = {"no_grad": torch.no_grad, "inference_mode": torch.inference_mode}.get(gm, contextlib.nullcontext)()
        xin = xr.to(in_dtype)
        if gm == "input_requires_grad":
            xin = xin.clone().requires_grad_(True)
        with mock.patch.object(torch, "randint", enum), ctx:
            q = fmt.quantise(xin).detach()
        if q.dtype != in_dtype:
            return {"violations": [{"key": f"{tag}|dtype_changed", "msg": f"E{E}M{M}: {in_dtype} -> {q.dtype}"}], "steps": 1}
        q = q.to(torch.float32)
    except AssertionError as e:
        return {"violations": [{"key": f"{tag}|randint_request", "msg": f"E{E}M{M} sr={nbits}: {e}"}], "steps": 1}
    except Exception as e:  # noqa
        return {"violations": [exception_violation(e, tag)], "steps": 1, "outcome": "raises"}
    x64 = x.to(torch.float64)
    lower, upper, sp = fp.neighbours(x64, E, M)
    aq = q.to(torch.float64).abs()
    ax = x64.abs()

    def add(name: str, mask: Any) -> None:
        if bool(mask.any()):
            i = int(mask.nonzero()[0, 0])
            xi = x[i].item()
            viol.append({"key": f"{tag}|{name}", "msg": f"E{E}M{M} srbits={nbits}: x={xi!r} ({float(xi).hex()}) lower={lower[i].item()!r} upper={upper[i].item()!r} results={sorted(set(q[i].tolist()))[:4]}"})

    add("not_a_neighbour", ((aq != lower[:, None]) & (aq != upper[:, None])).any(1))
    add("sign_flipped", ((aq != 0) & (torch.signbit(q) != torch.signbit(x)[:, None])).any(1))
    rep = ax == lower
    add("representable_moved", rep & (aq != lower[:, None]).any(1))
    count_up = (aq == upper[:, None]).sum(1).to(torch.float64)
    count_up = torch.where(rep, torch.zeros_like(count_up), count_up)
    pos = (ax - lower) / (upper - lower)  # exact in float64 (float32 inputs, power-of-two spacing)
    pos = torch.where(rep, torch.zeros_like(pos), pos)
    P = count_up / D
    # is the down-scaled input exact in float32?  (not when it lands among float32 subnormals)
    down = 2.0 ** (127 - 2 ** (E - 1))
    y = x64 / down
    exact = y.to(torch.float32).to(torch.float64) == y
    if nbits == 23 - M:
        add("probability_not_exact", exact & (P != pos))
        add("probability_off_subnormal", ~exact & ((P - pos).abs() > 2.0 ** (M - 24) + 1e-18))
    else:
        tol = 2.0 ** -(nbits + 1)
        add("probability_bias", exact & ((P - pos).abs() > tol * (1 + 1e-12)))
        add("probability_off_subnormal", ~exact & ((P - pos).abs() > tol + 2.0 ** (M - 24) + 1e-18))
    nontriv = bool((~rep).any())
    return {"violations": viol[:5], "steps": n * D, "n_states": n * D, "nontrivial": nontriv,
            "outcome": "sr_ok" if not viol else "sr_bad"}
