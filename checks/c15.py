"""C15 — format simulation = straight-through quantisation exactly at matmul boundaries.

Explorer kind P through the PUBLIC API and real TorchDynamo: every generated program is a
fresh nn.Module (own source / code object); the transformed module is compared bit-for-bit
(outputs and every input / parameter gradient) with an independent reference interpreter of
the same AST in which quantisation is written by hand around every linear / attention call.
The random source of stochastic formats is owned (torch.randint substituted by a fixed
function of (high, shape), order independent).  Part 2: the straight-through primitives.
"""

from __future__ import annotations

import itertools
from typing import Any, Dict, List
from unittest import mock

PROPERTY = "C15"
LIN = ["linear:F_nobias", "linear:F_bias_pos", "linear:F_bias_kw", "linear:F_weight_kw", "linear:F_all_kw", "linear:nn", "linear:nn_nobias"]
ULIN = ["ulinear:U", "ulinear:U_con_pos", "ulinear:U_con_kw", "ulinear:uu"]
ATT = [f"{p}:{v}" for p in ("sdpa", "usdpa") for v in ("plain", "causal_kw", "mask_pos", "mask_kw", "dropout0_kw", "all_kw")]
NEUTRAL = ["gelu:F", "tanh", "layer_norm:F", "add_scalar", "reshape"]
ALL = LIN + ULIN + ATT + NEUTRAL
SMALL = ["linear:F_bias_kw", "linear:nn", "ulinear:U_con_pos", "ulinear:uu", "sdpa:mask_pos", "usdpa:causal_kw",
         "gelu:F", "layer_norm:F", "add_scalar", "reshape"]
FORMATS = ["fp8_api", "rn", "sr3", "lossless"]
SPINE = ["linear:F_bias_kw", "gelu:F", "sdpa:mask_pos", "layer_norm:F", "ulinear:U", "add_scalar"]
RULE = (
    "case = (program AST, format pair, root kind) run through simulate_format/simulate_fp8 and "
    "real TorchDynamo, or a straight-through primitive case; non-trivial = the program contains "
    "at least one linear/attention instruction and the format is lossy"
)
BOUND = {
    "quick": "all 1-instruction programs over 24 instruction kinds x 4 format pairs x 2 roots; all "
    "2-instruction programs (576); single-deviation spines of length 6; residual-shaped programs; "
    "sinks sum/mse; primitives over 5 formats x 4 shapes",
    "thorough": "adds all 3-instruction programs over a 10-kind sub-alphabet and 2-deviation spines",
}
EXHAUSTIVE = {"quick": True, "thorough": True}
ASSUMPTIONS = [
    "A4: programs exhaustive to depth 2 (quick) / 3 (thorough) + deviation spines; hidden state (2,4,8)",
    "tensor values: one seeded draw per program (A1)",
    "stochastic formats: draws pinned to a fixed function of (high, shape); the distribution itself is C14",
    "FPFormat.quantise is trusted here (decided by C13/C14); only its placement / format is checked",
]
CHUNK = 4


def _progs(tier: str) -> List[Dict[str, Any]]:
    from models.programs import chains, spines

    out: List[Dict[str, Any]] = []
    for k in ALL:
        for f, root in itertools.product(FORMATS, ["container", "sequential"]):
            out.append({"prog": {"items": [["op", k]], "sink": "sum", "root": root}, "fmt": f})
    # operands that autograd does not track (frozen first layer, input without grad, the whole call under no_grad)
    for n, k in enumerate(LIN + ULIN + ATT):
        for env in ("freeze_first", "input_no_grad", "no_grad_call"):
            out.append({"prog": {"items": [["op", k], ["op", "tanh"], ["op", "linear:nn"]], "sink": "sum",
                                 **({"freeze_first": True} if env == "freeze_first" else {})}, "fmt": FORMATS[n % 4], "env": env})
    # call history: the parameters are updated between two calls of the transformed module - through `.data`
    # (no version bump), in place under no_grad, and by load_state_dict
    for n, k in enumerate(LIN + ULIN):
        for upd in ("data_assign", "data_inplace", "no_grad_inplace", "load_state_dict"):
            out.append({"prog": {"items": [["op", k], ["op", "tanh"]], "sink": "sum"}, "fmt": ["rn", "fp8_api", "sr3"][n % 3], "update": upd})
    # nested transform on a torch.nn root (nn.Sequential / a bare nn.Linear)
    for f in FORMATS:
        for pre in ("nested", "nested_called"):
            out.append({"prog": {"items": [["op", "linear:nn"], ["op", "gelu:nn"], ["op", "linear:nn_nobias"]], "sink": "tensor", "root": "torch_sequential"},
                        "fmt": f, "pre": pre})
            out.append({"prog": {"items": [["op", "linear:nn"]], "sink": "tensor", "root": "bare"}, "fmt": f, "pre": pre})
    # dtype coordinate: float64 / bfloat16 modules (quantisation happens in float32, the result keeps the dtype)
    for n, k in enumerate(LIN + ULIN + ATT):
        for dt in ("float64", "bfloat16"):
            out.append({"prog": {"items": [["op", k], ["op", "gelu:F"]], "sink": "sum", "dtype": dt}, "fmt": FORMATS[n % 4]})
            out.append({"prog": {"items": [["op", "layer_norm:F"], ["op", k]], "sink": "mse", "dtype": dt}, "fmt": FORMATS[(n + 1) % 4]})
    mods = ["linear:nn", "linear:nn_nobias", "gelu:nn", "layer_norm:nn", "softmax:nn"]
    for f in FORMATS:
        for k in ("linear:nn", "linear:nn_nobias"):
            out.append({"prog": {"items": [["op", k]], "sink": "tensor", "root": "bare"}, "fmt": f})
        for a, b in itertools.product(mods, mods):
            out.append({"prog": {"items": [["op", a], ["op", b]], "sink": "tensor", "root": "torch_sequential"}, "fmt": f})
    # the module given to simulate_format already carries an (identity) transform and may have been
    # called before: the new transform must still be applied (histories of nested transforms)
    for n, k in enumerate(LIN + ULIN + ATT):
        for pre in ("nested", "nested_called"):
            out.append({"prog": {"items": [["op", k], ["op", "gelu:F"]], "sink": "sum"}, "fmt": FORMATS[n % 4], "pre": pre})
    # two transformed copies of the same module with DIFFERENT formats, called alternately
    for n, k in enumerate(LIN + ULIN + ATT):
        out.append({"prog": {"items": [["op", k], ["op", "tanh"]], "sink": "sum"}, "fmt": FORMATS[n % 4], "other_fmt": FORMATS[(n + 1) % 4], "fresh": True})
    for n, (a, b) in enumerate(itertools.product(ALL, ALL)):
        out.append({"prog": {"items": [["op", a], ["op", b]], "sink": "mse" if n % 3 == 0 else "sum"}, "fmt": FORMATS[n % 4]})
    for n, items in enumerate(spines(SPINE, SMALL + ["linear:F_nobias", "sdpa:plain"], 1 if tier == "quick" else 2)):
        out.append({"prog": {"items": items, "sink": "sum"}, "fmt": FORMATS[n % 4]})
        if n % 2 == 0:
            out.append({"prog": {"items": items, "sink": "mse"}, "fmt": FORMATS[(n + 1) % 4]})
    for n, (a, b, c) in enumerate(itertools.product(["linear:F_bias_kw", "ulinear:uu", "sdpa:mask_pos", "gelu:F"], repeat=3)):
        out.append({"prog": {"items": [["op", a], ["res", [["op", b], ["op", c]], "skip_first" if n % 2 else "branch_first"],
                                       ["op", "linear:nn"]], "sink": "sum"}, "fmt": FORMATS[n % 4]})
    if tier == "thorough":
        for n, items in enumerate(chains(SMALL, 3)):
            if len(items) == 3:
                out.append({"prog": {"items": items, "sink": "sum"}, "fmt": FORMATS[n % 4]})
    return out


def _fx_progs(tier: str) -> List[Dict[str, Any]]:
    """tier A: the backend called directly on hand-built FX graphs, in which unit-scaled ops are
    leaf nodes (U.linear / U.scaled_dot_product_attention), as after unit_scale()"""
    out: List[Dict[str, Any]] = []
    for k in ALL:
        for f in FORMATS:
            out.append({"prog": {"items": [["op", k]], "sink": "sum"}, "fmt": f})
    for n, (a, b) in enumerate(itertools.product(ALL, ALL)):
        out.append({"prog": {"items": [["op", a], ["op", b]], "sink": "sum"}, "fmt": FORMATS[1 + n % 3]})
    if tier == "thorough":
        from models.programs import chains

        for n, items in enumerate(chains(SMALL, 3)):
            if len(items) == 3:
                out.append({"prog": {"items": items, "sink": "sum"}, "fmt": FORMATS[1 + n % 3]})
    return out


def cases(tier: str, seed: int) -> List[Dict[str, Any]]:
    out = [dict(c, kind="prog", seed=seed) for c in _progs(tier)]
    # format sweep: MANY transformed instances of one model class in one process (every one is quantised)
    for items in ([["op", "linear:nn"], ["op", "gelu:F"], ["op", "linear:F_bias_kw"]], [["op", "sdpa:causal_kw"], ["op", "linear:nn"]],
                  [["op", "linear:nn"]]):
        out.append({"kind": "sweep", "prog": {"items": items, "sink": "sum", "root": "bare" if len(items) == 1 else "container"},
                    "n": 12, "seed": seed, "fresh": True})
    out += [dict(c, kind="fx", seed=seed) for c in _fx_progs(tier)]
    for f in ("E4M3rn", "E5M2rn", "E2M1rn", "E8M23rn", "E5M2sr3"):
        for shape in ([], [7], [3, 5], [2, 3, 4], "sweep"):
            out.append({"kind": "prim", "fmt": f, "shape": shape})
    return out


def _formats(name: str) -> Any:
    from unit_scaling.formats import FPFormat

    if name == "fp8_api":
        return FPFormat(4, 3), FPFormat(5, 2)
    if name == "rn":
        return FPFormat(4, 3, rounding="nearest"), FPFormat(5, 2, rounding="nearest")
    if name == "sr3":
        return FPFormat(4, 3), FPFormat(5, 2, rounding="stochastic", srbits=3)
    return FPFormat(8, 23, rounding="nearest"), FPFormat(8, 23, rounding="nearest")


def run_case(case: Dict[str, Any]) -> Dict[str, Any]:
    import copy

    import torch
    from mc.core import exception_violation
    from models.semantics import QUANT_OPERANDS, QuantSemantics, pinned_randint, st_bwd, st_fwd

    viol: List[Dict[str, str]] = []
    if case["kind"] == "prim":
        from unit_scaling.formats import FPFormat

        fm = {"E4M3rn": FPFormat(4, 3, "nearest"), "E5M2rn": FPFormat(5, 2, "nearest"), "E2M1rn": FPFormat(2, 1, "nearest"),
              "E8M23rn": FPFormat(8, 23, "nearest"), "E5M2sr3": FPFormat(5, 2, "stochastic", 3)}[case["fmt"]]
        g = torch.Generator().manual_seed(3)
        ident = f"prim|{case['fmt']}"
        if case["shape"] == "sweep":
            # every float32 exponent (zero, subnormals, far beyond the format's range, +-inf) x boundary mantissas
            ident += "|sweep"
            ex = torch.arange(0, 256, dtype=torch.int64)
            ma = torch.tensor([0, 1, 2**22, 2**22 + 1, 2**23 - 1, 0x2AAAAA, 0x555555], dtype=torch.int64)
            bits = ((ex[:, None] << 23) | ma[None, :]).flatten()
            bits = bits[(bits >> 23 != 255) | (bits & 0x7FFFFF == 0)]  # no NaN payloads
            bits = torch.cat([bits, bits | (1 << 31)])
            sweep = (bits - ((bits >> 31) << 32)).to(torch.int32).view(torch.float32)
            x0, up = sweep.clone(), sweep.flip(0).clone()
        else:
            x0 = torch.randn(case["shape"], generator=g) * 3
            up = torch.randn(case["shape"], generator=g) * 0.01

        def same(a: Any, b: Any) -> bool:  # bit pattern (sign of zero included)
            return a.shape == b.shape and a.dtype == b.dtype and torch.equal(a.contiguous().view(torch.int32), b.contiguous().view(torch.int32))
        with mock.patch.object(torch, "randint", pinned_randint):
            x = x0.clone().requires_grad_(True)
            y = fm.quantise_fwd(x)
            (gx,) = torch.autograd.grad(y, x, up)
            if not same(y.detach(), fm.quantise(x0)):
                viol.append({"key": ident + "|quantise_fwd_value", "msg": f"{case}"})
            if not same(gx, up):
                viol.append({"key": ident + "|quantise_fwd_gradient_touched", "msg": f"{case}"})
            x = x0.clone().requires_grad_(True)
            y = fm.quantise_bwd(x)
            (gx,) = torch.autograd.grad(y, x, up)
            if not same(y.detach(), x0):
                viol.append({"key": ident + "|quantise_bwd_value_touched", "msg": f"{case}"})
            if not same(gx, fm.quantise(up)):
                viol.append({"key": ident + "|quantise_bwd_gradient", "msg": f"{case}"})
            if case["shape"] != "sweep":
                # the tensor given to quantise_bwd has ANOTHER consumer (skip branch): only the gradient flowing
                # through the call is quantised; and two calls on one tensor quantise their own gradients
                x = x0.clone().requires_grad_(True)
                h = x * 1.0
                z = fm.quantise_bwd(h)
                (gx,) = torch.autograd.grad([z, h], x, [up, up * 3.0])
                want = fm.quantise(up) + up * 3.0
                if not same(gx, want):
                    viol.append({"key": ident + "|quantise_bwd_touches_other_consumers", "msg": f"{case}"})
                x = x0.clone().requires_grad_(True)
                h = x * 1.0
                z1, z2 = fm.quantise_bwd(h), fm.quantise_bwd(h)
                (gx,) = torch.autograd.grad([z1, z2], x, [up, up * 0.5])
                want = fm.quantise(up) + fm.quantise(up * 0.5)
                if not same(gx, want):
                    viol.append({"key": ident + "|quantise_bwd_twice_on_one_tensor", "msg": f"{case}"})
                x = x0.clone().requires_grad_(True)
                h = x * 1.0
                z = fm.quantise_fwd(h)
                (gx,) = torch.autograd.grad([z, h], x, [up, up * 3.0])
                if not same(gx, up + up * 3.0) or not same(z.detach(), fm.quantise(x0)):
                    viol.append({"key": ident + "|quantise_fwd_touches_other_consumers", "msg": f"{case}"})
        return {"violations": viol, "steps": 2, "outcome": "prim"}

    import torch._dynamo
    from models.programs import ALPHABET, Interp, build, inputs, keys_of
    from unit_scaling.transforms import simulate_format, simulate_fp8

    if case["kind"] == "sweep":
        from unit_scaling.formats import FPFormat

        prog = case["prog"]
        if prog.get("root") == "bare":
            prog = dict(prog, sink="tensor")
        m, src = build(prog, case["seed"])
        inp = inputs(prog, case["seed"])
        pairs = [(4, 3), (5, 2), (3, 4), (2, 1), (5, 10), (4, 2), (3, 2), (6, 1), (2, 3), (5, 3), (4, 4), (3, 3), (2, 2), (6, 3)]
        ident = f"sweep|root={prog.get('root', 'container')}"

        def run_s(model: Any, call: Any) -> Any:
            for p_ in model.parameters():
                p_.grad = None
            a0 = inp[0].clone().requires_grad_(True)
            y = call(a0, *[a.clone() for a in inp[1:]])
            loss = y if y.dim() == 0 else (y * torch.linspace(-1, 1, y.numel()).reshape(y.shape)).sum()
            loss.backward()
            return y.detach(), a0.grad.clone()

        y_plain, _ = run_s(copy.deepcopy(m), copy.deepcopy(m))
        nbad = 0
        for i in range(case["n"]):
            fwd = FPFormat(*pairs[i % len(pairs)], rounding="nearest")
            bwd = FPFormat(*pairs[(i + 3) % len(pairs)], rounding="nearest")
            try:
                t = simulate_format(m, fwd, bwd)
                y_imp, g_imp = run_s(t, t)
            except Exception as e:  # noqa
                return {"violations": [exception_violation(e, ident)], "steps": i, "outcome": "raises"}
            ref_m = copy.deepcopy(m)
            y_ref, g_ref = run_s(ref_m, lambda *a: Interp(prog, ref_m, QuantSemantics(fwd, bwd)).run(*a))
            if not torch.equal(y_imp, y_ref) or not torch.equal(g_imp, g_ref):
                viol.append({"key": ident + "|instance_differs_from_hand_quantised", "msg":
                             f"transformed instance #{i} of the class (fwd E{fwd.exponent_bits}M{fwd.mantissa_bits}): "
                             f"equal to the UNquantised module: {bool(torch.equal(y_imp, y_plain))}\n" + src})
                nbad += 1
                if nbad >= 2:
                    break
        return {"violations": viol[:2], "steps": case["n"], "nontrivial": True, "outcome": f"sweep:{'ok' if not viol else 'bad'}"}

    prog, fname = case["prog"], case["fmt"]
    keys = keys_of(prog["items"])
    nq = sum(1 for k in keys if ALPHABET[k]["fn"] in QUANT_OPERANDS)
    kinds = sorted({k.split(":")[0] for k in keys})
    ident = f"prog|fmt={fname}|root={prog.get('root', 'container')}|ops={'+'.join(kinds)}" + (f"|dtype={prog['dtype']}" if prog.get("dtype") else "")
    m, src = build(prog, case["seed"])
    inp = inputs(prog, case["seed"])
    fwd, bwd = _formats(fname)

    env = case.get("env")
    if env:
        ident += f"|{env}"

    def run(model: Any, call: Any) -> Any:
        import contextlib

        for p_ in model.parameters():
            p_.grad = None
        xg = env not in ("input_no_grad", "no_grad_call")
        args = [a.clone().requires_grad_(xg) if a.is_floating_point() and i == 0 else a.clone() for i, a in enumerate(inp)]
        with mock.patch.object(torch, "randint", pinned_randint), (torch.no_grad() if env == "no_grad_call" else contextlib.nullcontext()):
            y = call(*args)
            loss = y if y.dim() == 0 else (y * torch.linspace(-1, 1, y.numel()).reshape(y.shape).to(y.dtype)).sum()
            if loss.requires_grad:
                loss.backward()
        grads = {str(j): (p.grad.clone() if p.grad is not None else None) for j, p in enumerate(model.parameters())}
        if args[0].is_floating_point():
            grads["<input>"] = args[0].grad
        return y.detach(), grads

    ref_m = copy.deepcopy(m)
    sem = QuantSemantics(fwd, bwd)
    y_ref, g_ref = run(ref_m, lambda *a: Interp(prog, ref_m, sem).run(*a))
    plain_m = copy.deepcopy(m)
    y_plain, g_plain = run(plain_m, plain_m)
    captured: List[Any] = []
    try:
        if case["kind"] == "fx":
            import torch.nn as nn
            from models.programs import to_fx

            ident = "fx|" + ident
            gm = to_fx(prog, m)
            holder = simulate_fp8(nn.Sequential()) if fname == "fp8_api" else simulate_format(nn.Sequential(), fwd, bwd)
            backend = holder.backends[-1]  # the library's own backend object, not imported by name
            t = backend(gm, [])
            captured.append(t)
            y_imp, g_imp = run(m, t)
        else:
            base_m = m
            if case.get("pre"):
                from unit_scaling.transforms.utils import apply_transform

                ident += "|" + case["pre"]
                base_m = apply_transform(m, lambda gm, ex: gm)  # an identity graph transform
                if case["pre"] == "nested_called":
                    torch._dynamo.reset()
                    run(base_m, base_m)
            t = simulate_fp8(base_m) if fname == "fp8_api" else simulate_format(base_m, fwd, bwd)
            t.backends.append(lambda gm, ex: (captured.append(gm), gm)[1])
            if case.get("other_fmt"):
                ident += "|two_formats"
                of, ob = _formats(case["other_fmt"])
                t_other = simulate_fp8(base_m) if case["other_fmt"] == "fp8_api" else simulate_format(base_m, of, ob)
                run(t, t)
                yo, go_ = run(t_other, t_other)  # resets TorchDynamo, traces with the other formats
                ref_o = copy.deepcopy(m)
                semo = QuantSemantics(of, ob)
                yro, gro = run(ref_o, lambda *a: Interp(prog, ref_o, semo).run(*a))
                if not torch.equal(yo, yro) or any((go_[k] is None) != (gro[k] is None) or (gro[k] is not None and not torch.equal(go_[k], gro[k])) for k in gro):
                    viol.append({"key": ident + "|second_format_not_honoured", "msg":
                                 f"module simulated with {case['other_fmt']} after one simulated with {fname} differs from its hand-quantised reference\n" + src})
            torch._dynamo.reset()
            y_imp, g_imp = run(t, t)
            if case.get("update"):
                # second call after a parameter update: reference = hand-quantised interpreter on the updated values
                ident += f"|after_{case['update']}"
                upd = case["update"]
                with torch.no_grad():
                    for j, p_ in enumerate(t.parameters()):
                        newv = p_.detach() * 1.25 + 0.125 * (j + 1)
                        if upd == "data_assign":
                            p_.data = newv.clone()
                        elif upd == "data_inplace":
                            p_.data.copy_(newv)
                        elif upd == "no_grad_inplace":
                            p_.copy_(newv)
                    if upd == "load_state_dict":
                        t.load_state_dict({kk: vv * 1.25 + 0.5 for kk, vv in t.state_dict().items()})
                ref_m.load_state_dict(t.state_dict())
                y_ref, g_ref = run(ref_m, lambda *a: Interp(prog, ref_m, QuantSemantics(fwd, bwd)).run(*a))
                y_imp, g_imp = run(t, t)
                plain_m.load_state_dict(t.state_dict())
                y_plain, g_plain = run(plain_m, plain_m)
    except Exception as e:  # noqa
        v = exception_violation(e, ident)
        v["msg"] += "\n" + src
        return {"violations": [v], "steps": 1, "outcome": "raises"}
    if not captured:
        viol.append({"key": ident + "|backend_not_invoked", "msg": "the quantisation backend never ran\n" + src})
    else:
        tg = [n.target for n in captured[-1].graph.nodes if n.op == "call_function"]  # the latest trace
        nquant = sum(1 for x in tg if getattr(x, "__name__", "").startswith("_quantised"))
        if nquant != nq:
            viol.append({"key": ident + "|quantised_node_count", "msg": f"{nquant} quantised nodes for {nq} linear/attention instructions\n" + src})
    if y_imp.shape != y_ref.shape or not torch.equal(y_imp, y_ref):
        err = (y_imp - y_ref).abs().max().item() if y_imp.shape == y_ref.shape else float("nan")
        viol.append({"key": ident + "|output_differs_from_hand_quantised", "msg": f"max err {err:.3e}\n" + src})
    else:
        for n in g_ref:
            a, b = g_imp.get(n), g_ref[n]
            if (a is None) != (b is None) or (a is not None and not torch.equal(a, b)):
                err = (a - b).abs().max().item() if a is not None and b is not None else float("nan")
                viol.append({"key": ident + "|gradient_differs_from_hand_quantised", "msg": f"{n}: max err {err:.3e}\n" + src})
                break
    if fname == "lossless" and not viol and prog.get("dtype") != "float64":  # (E8M23 is not lossless for float64 data)
        if not torch.equal(y_imp, y_plain) or any(
                (g_imp[n] is None) != (g_plain[n] is None) or (g_imp[n] is not None and not torch.equal(g_imp[n], g_plain[n]))
                for n in g_plain):
            viol.append({"key": ident + "|lossless_not_bit_identical", "msg": src})
    lossy_effect = nq > 0 and fname != "lossless" and not torch.equal(y_ref, y_plain)
    return {"violations": viol[:3], "steps": 3, "nontrivial": lossy_effect or (nq > 0 and fname == "lossless"),
            "outcome": f"nq={nq}:{fname}:{'ok' if not viol else 'bad'}"}
