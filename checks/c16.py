"""C16 — unit_scale() equals the hand conversion prescribed by the User Guide.

Explorer kind P through the public API and real TorchDynamo.  Programs are well-nested
block programs (item = op | Res(items)); the reference interpreter applies the recipe
literally (models.semantics.UnitScaleSemantics) on the parameters of the RETURNED module.
Outputs and all gradients are compared in float64 (1e-11); weight re-initialisation and
non-destructiveness are checked separately.
"""

from __future__ import annotations

import itertools
from typing import Any, Dict, List

PROPERTY = "C16"
MAPPED = ["linear:F_nobias", "linear:F_bias_pos", "linear:F_bias_kw", "linear:F_weight_kw", "linear:F_all_kw", "sdpa:all_kw", "gelu:F_kw", "linear:nn", "matmul:param", "gelu:F", "gelu:F_tanh",
          "gelu:nn", "silu:F", "softmax:F", "softmax:F_pos", "softmax:nn", "dropout:F_p0", "dropout:F_eval", "dropout:F_eval_pos", "layer_norm:F",
          "layer_norm:F_affine", "layer_norm:nn", "conv1d:F", "sdpa:plain", "sdpa:causal_kw", "sdpa:mask_pos", "sdpa:mask_kw"]
UNMAPPED = ["tanh", "relu", "mul_scalar", "reshape", "rotate_half", "gate_softmax"]
ADDS = ["add_scalar", "add_scalar_left", "add_param", "iadd_param"]
ALL = MAPPED + UNMAPPED + ADDS
SMALL = ["linear:F_bias_kw", "linear:nn", "gelu:F", "softmax:nn", "layer_norm:F", "sdpa:causal_kw", "tanh", "mul_scalar",
         "add_scalar", "add_param"]
FIRSTS = ["x", "emb", "emb_F", "emb_pos"]
SINKS = ["sum", "mse", "cross_entropy", "tensor"]
RULE = (
    "case = (block program AST, first instruction kind, sink, root) run through unit_scale() and "
    "real TorchDynamo; non-trivial = the program contains a mapped op or an add (the transform "
    "changes the computation)"
)
BOUND = {
    "quick": "all 1-instruction programs over 30 kinds x 4 first-kinds x 4 sinks (subset product), all "
    "2-instruction programs over a 10-kind sub-alphabet, every single residual block shape "
    "(pre / Res(a[,b]) / post, both operand orders, nested and sequential pairs), torch.nn-only "
    "roots, user replacement precedence",
    "thorough": "adds all 3-instruction programs over the sub-alphabet and 0-4 residual blocks with nesting <= 2",
}
EXHAUSTIVE = {"quick": True, "thorough": True}
ASSUMPTIONS = [
    "A4: programs exhaustive to the stated depth; hidden state (2,4,8); float64",
    "only well-nested programs (positional 'later residual add' == data-flow 'later residual add')",
    "dropout only with p = 0 (the recipe's U.dropout is random otherwise)",
]
CHUNK = 4


def _progs(tier: str) -> List[Dict[str, Any]]:
    from models.programs import chains

    out: List[Dict[str, Any]] = []

    def add(items: Any, first: str = "x", sink: str = "sum", root: str = "container", **kw: Any) -> None:
        out.append({"prog": dict({"items": items, "first": first, "sink": sink, "root": root, "dtype": "float64"}, **kw)})

    for n, k in enumerate(ALL):
        for first in FIRSTS:
            add([["op", k]], first, SINKS[n % 4])
        for sink in SINKS:
            add([["op", k]], "x", sink)
        add([["op", k]], "x", "sum", "sequential")
    for n, items in enumerate(chains(SMALL, 2)):
        if len(items) == 2:
            add(items, FIRSTS[n % 4], SINKS[n % 3])
    # ---- residual block shapes
    body = ["linear:F_bias_kw", "gelu:F", "softmax:F", "sdpa:causal_kw", "tanh", "layer_norm:nn", "gate_softmax",
            "linear:F_all_kw", "sdpa:all_kw", "gelu:F_kw"]  # (the last three: every tensor operand passed by keyword)
    for order in ("skip_first", "branch_first"):
        for a in body + ["linear:nn", "add_param", "mul_scalar"]:
            for first in FIRSTS:
                add([["res", [["op", a]], order]], first)
            add([["op", "linear:nn"], ["res", [["op", a]], order], ["op", "linear:F_nobias"]])
            add([["res", [["op", a]], order], ["op", "gelu:F"], ["op", "add_scalar"]], sink="mse")
        for a, b in itertools.product(body, body):
            add([["op", "layer_norm:F"], ["res", [["op", a], ["op", b]], order], ["op", "linear:F_bias_pos"]],
                sink="cross_entropy" if a == b else "sum")
    for a, b in itertools.product(["linear:nn", "gelu:F", "sdpa:plain", "tanh"], repeat=2):
        # sequential and nested pairs of residual blocks
        add([["res", [["op", a]], "skip_first"], ["res", [["op", b]], "branch_first"], ["op", "linear:F_nobias"]], "emb_pos", "cross_entropy")
        add([["res", [["op", a], ["res", [["op", b]], "skip_first"]], "skip_first"], ["op", "gelu:F"]])
    # ---- DAGs: two towers from the same tensor merged by a plain add (the last residual add does
    # not depend on the other tower's), incl. two residual blocks sharing their skip tensor
    # (towers start with an op: a residual block whose skip is the SHARED tensor would overlap the
    # other tower's block - not well-nested, outside the property; counted in DESIGN.md)
    tow = [[["op", "linear:F_bias_kw"], ["op", "gelu:F"]], [["op", "mul_scalar"], ["res", [["op", "gelu:F"]], "skip_first"]],
           [["op", "linear:nn"], ["res", [["op", "silu:F"], ["op", "linear:F_nobias"]], "branch_first"]],
           [["op", "layer_norm:F"], ["res", [["op", "softmax:F"]], "skip_first"], ["op", "linear:F_nobias"]], [["op", "tanh"]]]
    for n, (a, b) in enumerate(itertools.product(tow, tow)):
        add([["op", "linear:nn"], ["par", a, b], ["op", "gelu:F"]], FIRSTS[n % 4], SINKS[n % 3])
        add([["par", a, b]], "x", "tensor")
        add([["op", "linear:F_nobias"], ["par", a, b], ["res", [["op", "linear:nn"]], "skip_first"], ["op", "silu:F"]])
    # ---- torch.nn-only roots
    mods = ["linear:nn", "linear:nn_nobias", "gelu:nn", "layer_norm:nn", "softmax:nn"]
    for k in mods[:2]:
        add([["op", k]], sink="tensor", root="bare")
    for a, b in itertools.product(mods, mods):
        add([["op", a], ["op", b]], sink="tensor", root="torch_sequential")
    # ---- user replacement precedence
    for items in ([["op", "custom_gelu"]], [["op", "linear:nn"], ["op", "custom_gelu"]],
                  [["res", [["op", "custom_gelu"], ["op", "linear:F_nobias"]], "skip_first"], ["op", "custom_gelu"]]):
        add(items, replace=True)
        add(items, replace=False)
    # ... also when the replaced function itself has a built-in unit-scaled counterpart
    for items in ([["op", "gelu:F"]], [["op", "linear:nn"], ["op", "gelu:F"], ["op", "gelu:nn"]],
                  [["res", [["op", "gelu:F_tanh"], ["op", "linear:F_nobias"]], "skip_first"], ["op", "gelu:F"]]):
        add(items, replace="builtin")
    # ... and only for the call they were given to (fresh process: first another module with replacements)
    for items in ([["op", "gelu:F"]], [["op", "linear:nn"], ["op", "silu:F"], ["op", "gelu:nn"]],
                  [["res", [["op", "gelu:F_tanh"], ["op", "linear:F_nobias"]], "skip_first"], ["op", "gelu:F"]]):
        add(items)
        out[-1]["history"] = "after_replace"
        out[-1]["fresh"] = True
        add(items, replace="builtin")
        out[-1]["history"] = "after_replace"
        out[-1]["fresh"] = True
    if tier == "thorough":
        for n, items in enumerate(chains(SMALL, 3)):
            if len(items) == 3:
                add(items, FIRSTS[n % 4], SINKS[n % 3])
        blocks = [["res", [["op", "linear:nn"], ["op", "gelu:F"]], "skip_first"], ["res", [["op", "sdpa:causal_kw"]], "branch_first"],
                  ["res", [["op", "layer_norm:F"], ["res", [["op", "linear:F_bias_kw"]], "skip_first"]], "skip_first"]]
        for nb in (3, 4):
            for combo in itertools.product(range(3), repeat=nb):
                add([blocks[c] for c in combo] + [["op", "linear:F_nobias"]], "emb_pos", "cross_entropy")
    return out


def _fx_progs(tier: str) -> List[Dict[str, Any]]:
    """tier A: the unit-scaling backend called directly on FX graphs emitted from the AST"""
    from models.programs import chains

    out: List[Dict[str, Any]] = []

    def add(items: Any, sink: str = "sum") -> None:
        out.append({"prog": {"items": items, "first": "x", "sink": sink, "root": "container", "dtype": "float64"}})

    depth = 3 if tier == "quick" else 4
    keys = SMALL if tier == "quick" else SMALL[:8]
    for n, items in enumerate(chains(keys, depth)):
        add(items, SINKS[n % 4])
    body = ["linear:F_bias_kw", "gelu:F", "softmax:F", "sdpa:causal_kw", "tanh", "gate_softmax", "add_param"]
    for a, b, c in itertools.product(body, repeat=3):
        add([["op", a], ["res", [["op", b], ["op", c]], "skip_first"], ["op", "linear:nn"]])
        add([["res", [["op", a], ["res", [["op", b]], "branch_first"]], "skip_first"], ["op", c], ["op", "add_scalar"]], "mse")
        add([["res", [["op", a]], "skip_first"], ["res", [["op", b]], "skip_first"], ["res", [["op", c]], "branch_first"]], "tensor")
        add([["op", "linear:nn"], ["par", [["op", a], ["res", [["op", b]], "skip_first"]], [["op", "tanh"], ["res", [["op", c]], "branch_first"], ["op", "gelu:F"]]],
             ["op", "linear:F_nobias"]])
    return out


def cases(tier: str, seed: int) -> List[Dict[str, Any]]:
    return [dict(c, kind="prog", seed=seed) for c in _progs(tier)] + [dict(c, kind="fx", seed=seed) for c in _fx_progs(tier)]


def _my_act(x: Any, approximate: str = "none") -> Any:
    """user-supplied replacement for F.gelu (distinguishable from U.gelu)"""
    import torch

    return torch.tanh(x) * 1.25


def run_case(case: Dict[str, Any]) -> Dict[str, Any]:
    import copy

    import torch
    import torch._dynamo
    import torch.nn as nn
    import unit_scaling.functional as U
    from mc.core import exception_violation
    from models.programs import Interp, build, inputs, keys_of
    from models.semantics import UnitScaleSemantics
    from unit_scaling.transforms import unit_scale

    viol: List[Dict[str, str]] = []
    prog = case["prog"]
    keys = keys_of(prog["items"])
    kinds = sorted({k.split(":")[0] for k in keys})
    nres = str(prog["items"]).count("'res'")
    npar = str(prog["items"]).count("'par'")
    ident = f"first={prog['first']}|sink={prog['sink']}|root={prog['root']}|res={nres}|par={npar}|ops={'+'.join(kinds)}"
    m, src = build(prog, case["seed"])
    inp = inputs(prog, case["seed"])
    # a model that has been trained / loaded: layers other than Linear / Embedding carry non-trivial affine parameters
    # (a fresh nn.LayerNorm has weight 1, bias 0, which would hide a re-initialisation of the wrong layers)
    gen_aff = torch.Generator().manual_seed(case["seed"] + 77)
    with torch.no_grad():
        for mod in m.modules():
            if isinstance(mod, nn.LayerNorm) and mod.bias is not None:
                mod.bias.add_(torch.randn(mod.bias.shape, generator=gen_aff, dtype=torch.float64).to(mod.bias.dtype) * 0.5 + 0.25)
                mod.weight.mul_(torch.rand(mod.weight.shape, generator=gen_aff, dtype=torch.float64).to(mod.weight.dtype) + 0.5)
    before = {k: v.clone() for k, v in m.state_dict().items()}
    replace = {}
    import torch.nn.functional as F

    sem_replace: Dict[str, Any] = {}
    if prog.get("replace") == "builtin":
        replace = {F.gelu: _my_act}
        sem_replace = {"F.gelu": _my_act}
    elif prog.get("replace"):
        replace = {m.custom_gelu_fn[0]: U.silu}
        sem_replace = {"custom_gelu": U.silu}
    captured: List[Any] = []

    def run(model: Any, call: Any) -> Any:
        args = [a.clone().requires_grad_(True) if a.is_floating_point() and i == 0 else a.clone() for i, a in enumerate(inp)]
        y = call(*args)
        loss = y if y.dim() == 0 else (y * torch.linspace(-1, 1, y.numel(), dtype=y.dtype).reshape(y.shape)).sum()
        loss.backward()
        grads = {str(j): (p.grad.clone() if p.grad is not None else None) for j, p in enumerate(model.parameters())}
        if args[0].is_floating_point():
            grads["<input>"] = args[0].grad
        return y.detach(), grads

    if case["kind"] == "fx":
        from models.programs import to_fx

        ident = "fx|" + ident
        try:
            gm = to_fx(prog, m)
            backend = unit_scale(nn.Sequential()).backends[-1]  # the library's backend object
            t = backend(gm, [])
            y_imp, g_imp = run(m, t)
        except Exception as e:  # noqa
            v = exception_violation(e, ident)
            v["msg"] += "\n" + src
            return {"violations": [v], "steps": 1, "outcome": "raises"}
        ref_m = copy.deepcopy(m)
        for p_ in ref_m.parameters():
            p_.grad = None
        sem = UnitScaleSemantics({})
        y_ref, g_ref = run(ref_m, lambda *a: Interp(prog, ref_m, sem).run(*a))
        if any(not torch.equal(before[k], v) for k, v in m.state_dict().items()):
            viol.append({"key": ident + "|original_modified", "msg": src})
        return _compare(viol, ident, src, sem, y_imp, g_imp, y_ref, g_ref, nres)
    try:
        if case.get("history") == "after_replace":
            # process history: ANOTHER module was unit-scaled with a user replacement (and run) first;
            # replacements hold for that call only
            ident += "|after_replace_call"
            oprog = {"items": [["op", "linear:nn"], ["op", "gelu:F"]], "first": "x", "sink": "sum", "root": "container", "dtype": "float64"}
            om, _ = build(oprog, case["seed"] + 3)
            ou = unit_scale(om, replace={F.gelu: _my_act, F.silu: _my_act})
            torch._dynamo.reset()
            oin = inputs(oprog, case["seed"])
            ou(*[a.clone() for a in oin])
        u = unit_scale(m, replace=replace) if replace else unit_scale(m)
        u.backends.append(lambda gm, ex: (captured.append(gm), gm)[1])
        torch._dynamo.reset()
        y_imp, g_imp = run(u, u)
    except Exception as e:  # noqa
        v = exception_violation(e, ident)
        v["msg"] += "\n" + src
        return {"violations": [v], "steps": 1, "outcome": "raises"}
    if not captured:
        viol.append({"key": ident + "|backend_not_invoked", "msg": src})
    # ---- the original module is untouched, the copy is re-initialised
    after = m.state_dict()
    if any(not torch.equal(before[k], after[k]) for k in before):
        viol.append({"key": ident + "|original_modified", "msg": src})
    for (name, mod), (_, mod0) in zip(u.named_modules(), m.named_modules()):
        if isinstance(mod, (nn.Linear, nn.Embedding)):
            w0 = mod0.weight.detach()
            if not torch.allclose(mod.weight.detach(), w0 / w0.std(), rtol=1e-12, atol=1e-14):
                viol.append({"key": ident + "|weight_not_unit_initialised", "msg": f"{name}.weight std={mod.weight.std().item()}\n" + src})
            if getattr(mod, "bias", None) is not None and bool((mod.bias != 0).any()):
                viol.append({"key": ident + "|bias_not_zeroed", "msg": f"{name}.bias\n" + src})
        else:
            # "all other operations are untouched": parameters and buffers owned by any other layer are copied as they are
            for (pn, a), (_, b) in zip(list(mod.named_parameters(recurse=False)) + list(mod.named_buffers(recurse=False)),
                                       list(mod0.named_parameters(recurse=False)) + list(mod0.named_buffers(recurse=False))):
                if a.shape != b.shape or not torch.equal(a.detach(), b.detach()):
                    viol.append({"key": ident + f"|other_layer_reinitialised|{type(mod).__name__}", "msg": f"{name}.{pn} changed by unit_scale()\n" + src})
                    break
    # ---- reference: the recipe applied by hand on the returned module's parameters
    ref_m, _ = build(prog, case["seed"])
    ref_m.load_state_dict(u.state_dict())
    sem = UnitScaleSemantics(sem_replace)
    y_ref, g_ref = run(ref_m, lambda *a: Interp(prog, ref_m, sem).run(*a))
    return _compare(viol, ident, src, sem, y_imp, g_imp, y_ref, g_ref, nres)


def _compare(viol: List[Dict[str, str]], ident: str, src: str, sem: Any, y_imp: Any, g_imp: Any, y_ref: Any, g_ref: Any,
             nres: int) -> Dict[str, Any]:
    def close(a: Any, b: Any) -> bool:
        scale = max(float(b.abs().max()), 1e-300) if b.numel() else 1.0
        return a.shape == b.shape and bool(((a - b).abs() <= 1e-11 * scale + 1e-11 * b.abs()).all())

    if not close(y_imp, y_ref):
        err = (y_imp - y_ref).abs().max().item() if y_imp.shape == y_ref.shape else float("nan")
        viol.append({"key": ident + "|output_differs_from_recipe", "msg": f"max err {err:.3e}; recipe plan: {sem.plan}\n" + src})
    else:
        for n in g_ref:
            a, b = g_imp.get(n), g_ref[n]
            if (a is None) != (b is None) or (a is not None and not close(a, b)):
                err = (a - b).abs().max().item() if a is not None and b is not None else float("nan")
                viol.append({"key": ident + "|gradient_differs_from_recipe", "msg": f"param {n}: max err {err:.3e}; recipe plan: {sem.plan}\n" + src})
                break
    nontriv = any(p.startswith(("U.", "residual", "custom")) for p in sem.plan)
    return {"violations": viol[:3], "steps": 3, "nontrivial": nontriv,
            "outcome": f"res={nres}:{'ok' if not viol else 'bad'}"}
