"""C17 — transforms are non-destructive and compose in any order.

Explorer kind H, complete over the chain space the statement allows: every subset/order of
{unit_scale (<=1), one format simulation in {simulate_fp8, lossless, E5M2-nearest, pinned
stochastic}} optionally ended by track_scales or compile, x "intermediate module called /
not called before the next transform" x 1-3 final forward/backward calls, on a family of
small modules.  Oracles: invariants on the original and on every intermediate, exact
comparison with a hand-composed reference (unit-scale recipe, then hand quantisation), and
the differential oracle: all orders / call histories of the same transform set must agree
bit for bit.
"""

from __future__ import annotations

import itertools
from typing import Any, Dict, List, Optional, Tuple
from unittest import mock

PROPERTY = "C17"
FAMILIES: Dict[str, Dict[str, Any]] = {
    "mlp": {"items": [["op", "linear:nn"], ["op", "gelu:F"], ["op", "linear:nn"]], "sink": "sum"},
    "residual": {"items": [["op", "linear:nn"], ["res", [["op", "layer_norm:nn"], ["op", "linear:nn"], ["op", "gelu:F"],
                                                          ["op", "linear:F_bias_kw"]], "skip_first"], ["op", "linear:nn_nobias"]], "sink": "mse"},
    "attention": {"items": [["res", [["op", "layer_norm:F"], ["op", "sdpa:causal_kw"], ["op", "linear:nn"]], "skip_first"],
                            ["op", "gelu:F"]], "sink": "sum"},
    "unit_layers": {"items": [["op", "ulinear:uu"], ["op", "usdpa:plain"], ["op", "ulinear:U"]], "sink": "sum"},
    "sequential_root": {"items": [["op", "linear:nn"], ["op", "tanh"], ["op", "linear:F_bias_pos"]], "sink": "tensor", "root": "sequential"},
    "np_buffer": {"items": [["op", "linear:nn"], ["op", "with_zeros_np"], ["op", "with_zeros"], ["op", "linear:nn_nobias"]], "sink": "sum"},
    "torch_root": {"items": [["op", "linear:nn"], ["op", "gelu:nn"], ["op", "linear:nn_nobias"]], "sink": "tensor", "root": "torch_sequential"},
}
FMTS = [None, "fp8", "lossless", "e5m2rn", "sr_pinned"]
FINALS = [None, "track", "compile"]
RULE = (
    "case = (module family, transform set, final transform); inside a case EVERY order of the set x "
    "every called/not-called pattern of the intermediates x 3 repeated final calls is executed; "
    "states = (chain prefix, call history); non-trivial = at least two transforms are nested"
)
BOUND = {
    "quick": "7 module families x {unit_scale?} x {no format, fp8, lossless, E5M2-RN, pinned SR} x "
    "{no final, track_scales}; compile(final) for 3 families on the {unit_scale}/{} sets; all orders, "
    "all intermediate-call patterns, 3 final calls",
    "thorough": "compile(final) for every family",
}
EXHAUSTIVE = {"quick": True, "thorough": True}
ASSUMPTIONS = [
    "compile after a format simulation is chained only with a deterministic (round-to-nearest) format, for the mlp / residual families",
    "A1: one seeded value draw per family; stochastic rounding draws pinned by the harness",
    "inductor results compared to 2e-4 relative (code generation reorders float32 arithmetic); "
    "everything else is compared bit for bit, except implementation-vs-hand-reference for chains "
    "containing unit_scale (1e-5 relative, float32)",
]
CHUNK = 1


def cases(tier: str, seed: int) -> List[Dict[str, Any]]:
    out: List[Dict[str, Any]] = []
    for fam in FAMILIES:
        for us in (False, True):
            if us and fam == "unit_layers":
                continue  # unit_scale() of an already unit-scaled module is not a documented use
            for fmt in FMTS:
                for final in (None, "track"):
                    if not us and fmt is None and final is None:
                        continue
                    out.append({"family": fam, "unit_scale": us, "fmt": fmt, "final": final, "seed": seed})
        # structure / history coordinates: a parameter frozen when the transforms are applied (nothing may be
        # shared with the original); the intermediate module is TRAINED (parameters updated in place) before
        # the next transform is applied (each nesting starts from the module it was given, not from an ancestor)
        for us in (False, True):
            if us and fam == "unit_layers":
                continue
            for fmt, final in ((None, "track"), ("fp8", None), ("e5m2rn", "track")):
                out.append({"family": fam, "unit_scale": us, "fmt": fmt, "final": final, "seed": seed, "freeze": True})
                if len(([1] if us else []) + ([1] if fmt else []) + ([1] if final else [])) >= 2:
                    out.append({"family": fam, "unit_scale": us, "fmt": fmt, "final": final, "seed": seed, "train_between": True})
        # object history: the module handed to the chain (and every called intermediate) already holds gradients
        for us in (False, True):
            if us and fam == "unit_layers":
                continue
            out.append({"family": fam, "unit_scale": us, "fmt": "e5m2rn", "final": None, "seed": seed, "with_grads": True})
        # call history: the transformed module first receives a call that RAISES (wrong feature size), then normal calls
        for us in (False, True):
            if us and fam == "unit_layers":
                continue
            for fmt, final in (("e5m2rn", None), (None, "track") if us else ("fp8", "track")):
                out.append({"family": fam, "unit_scale": us, "fmt": fmt, "final": final, "seed": seed, "failed_call": True})
        # dtype coordinate: a float64 / bfloat16 module (transforms copy first and never convert the module given)
        for dt_ in ("float64", "bfloat16"):
            for us in (False, True):
                if (us and fam == "unit_layers") or (dt_ == "bfloat16" and (us or fam not in ("mlp", "unit_layers"))):
                    continue
                for fmt, final in (("fp8", None), ("e5m2rn", "track"), (None, "track")):
                    if not us and fmt is None:
                        continue
                    out.append({"family": fam, "unit_scale": us, "fmt": fmt, "final": final, "seed": seed, "dtype": dt_})
        comp = ["mlp", "residual", "sequential_root"] if tier == "quick" else list(FAMILIES)
        if fam in comp:
            for us in (False, True):
                if us and fam == "unit_layers":
                    continue
                out.append({"family": fam, "unit_scale": us, "fmt": None, "final": "compile", "seed": seed})
                # compile as the last transform of a chain that contains a (deterministic) format simulation
                if fam == "mlp" or (fam == "residual" and not us):
                    out.append({"family": fam, "unit_scale": us, "fmt": "e5m2rn", "final": "compile", "seed": seed})
    # two LIVE chains on the same original with different formats, used interleaved (forward A, forward B, backward A)
    for fam in ("mlp", "residual", "attention", "unit_layers"):
        for fa, fb in (("e5m2rn", "lossless"), ("lossless", "e5m2rn"), ("fp8", "e5m2rn"), ("sr_pinned", "lossless")):
            for us in (False, True):
                if us and fam == "unit_layers":
                    continue
                out.append({"family": fam, "unit_scale": us, "fmt": fa, "final": None, "seed": seed, "interleave_with": fb})
    # scheduling only: chains ending in compile (Inductor) are the expensive ones - run them first
    out.sort(key=lambda c: (0 if c.get("final") == "compile" else 1, -(int(bool(c.get("fmt"))) + int(bool(c.get("unit_scale"))))))
    return out


def _fmt(name: str) -> Any:
    from unit_scaling.formats import FPFormat

    return {
        "fp8": (FPFormat(4, 3), FPFormat(5, 2)),
        "lossless": (FPFormat(8, 23, "nearest"), FPFormat(8, 23, "nearest")),
        "e5m2rn": (FPFormat(5, 2, "nearest"), FPFormat(5, 2, "nearest")),
        "sr_pinned": (FPFormat(4, 3, "stochastic", 5), FPFormat(5, 2, "stochastic", 4)),
    }[name]


def run_case(case: Dict[str, Any]) -> Dict[str, Any]:
    import copy

    import torch
    import torch._dynamo
    from mc.core import exception_violation
    from models.programs import Interp, build, inputs
    from models.semantics import QUANT_OPERANDS, QuantSemantics, UnitScaleSemantics, pinned_randint, st_bwd, st_fwd
    from unit_scaling import transforms as T

    fam, us, fmt, final = case["family"], case["unit_scale"], case["fmt"], case["final"]
    prog = dict(FAMILIES[fam], first="x")
    if case.get("freeze"):
        prog["freeze_first"] = True
    if case.get("dtype"):
        prog["dtype"] = case["dtype"]
    tset = (["unit_scale"] if us else []) + ([f"fmt:{fmt}"] if fmt else [])
    ident = f"{fam}|set={'+'.join(tset) or 'none'}|final={final}" + ("|frozen_param" if case.get("freeze") else "") + (f"|dtype={case['dtype']}" if case.get("dtype") else "") + ("|after_failed_call" if case.get("failed_call") else "") + ("|with_grads" if case.get("with_grads") else "")
    viol: List[Dict[str, str]] = []
    steps = 0

    def apply(mod: Any, t: str) -> Any:
        if t == "unit_scale":
            return T.unit_scale(mod)
        if t == "fmt:fp8":
            return T.simulate_fp8(mod)
        if t.startswith("fmt:"):
            f, b = _fmt(t[4:])
            return T.simulate_format(mod, f, b)
        if t == "track":
            return T.track_scales(mod)
        return T.compile(mod)

    def call(mod: Any, inp: Tuple[Any, ...]) -> Tuple[Any, Dict[str, Any]]:
        for p in mod.parameters():
            p.grad = None
        args = [a.clone().requires_grad_(True) if a.is_floating_point() and i == 0 else a.clone() for i, a in enumerate(inp)]
        with mock.patch.object(torch, "randint", pinned_randint):
            y = mod(*args)
            loss = y if y.dim() == 0 else (y * torch.linspace(-1, 1, y.numel()).reshape(y.shape)).sum()
            loss.backward()
        grads = {str(j): (p.grad.clone() if p.grad is not None else None) for j, p in enumerate(mod.parameters())}
        grads["<input>"] = args[0].grad.clone() if args[0].grad is not None else None
        return y.detach().clone(), grads

    def same(a: Tuple[Any, Dict[str, Any]], b: Tuple[Any, Dict[str, Any]], rtol: float = 0.0) -> Optional[str]:
        def eq(x: Any, y: Any) -> bool:
            if (x is None) != (y is None):
                return False
            if x is None:
                return True
            if x.shape != y.shape:
                return False
            if rtol == 0.0:
                return bool(torch.equal(x, y))
            sc = max(float(y.abs().max()), 1e-30) if y.numel() else 1.0
            return bool(((x - y).abs() <= rtol * sc + rtol * y.abs()).all())

        if not eq(a[0], b[0]):
            return "output"
        for k in b[1]:
            if not eq(a[1].get(k), b[1][k]):
                return f"grad[{k}]"
        return None

    results: List[Tuple[str, Any]] = []
    orders = list(itertools.permutations(tset)) or [()]
    if case.get("interleave_with"):
        ident += f"|interleaved_with_fmt:{case['interleave_with']}"
        try:
            m, src = build(prog, case["seed"])
            inp = inputs(prog, case["seed"])
            chain_a = tset
            chain_b = (["unit_scale"] if us else []) + [f"fmt:{case['interleave_with']}"]

            def mk(chain: List[str]) -> Any:
                mod = m
                for t in chain:
                    mod = apply(mod, t)
                return mod

            def fwd_(mod: Any) -> Any:
                for p in mod.parameters():
                    p.grad = None
                a0 = inp[0].clone().requires_grad_(True)
                with mock.patch.object(torch, "randint", pinned_randint):
                    y = mod(a0, *[a.clone() for a in inp[1:]])
                loss = y if y.dim() == 0 else (y * torch.linspace(-1, 1, y.numel()).reshape(y.shape)).sum()
                return mod, a0, y, loss

            def bwd_(state: Any) -> Any:
                mod, a0, y, loss = state
                with mock.patch.object(torch, "randint", pinned_randint):
                    loss.backward()
                return y.detach().clone(), dict({str(j): (p.grad.clone() if p.grad is not None else None) for j, p in enumerate(mod.parameters())},
                                                **{"<input>": a0.grad.clone()})

            ta, tb = mk(chain_a), mk(chain_b)
            torch._dynamo.reset()
            alone_a = bwd_(fwd_(ta))
            alone_b = bwd_(fwd_(tb))
            sa = fwd_(ta)          # forward A
            sb = fwd_(tb)          # forward B (another live chain with other formats)
            inter_a = bwd_(sa)     # backward A
            inter_b = bwd_(sb)     # backward B
            for nm, x_, y_ in (("A", inter_a, alone_a), ("B", inter_b, alone_b)):
                d = same(x_, y_)
                if d:
                    viol.append({"key": ident + f"|interleaved_use_changes_chain_{nm}", "msg": f"{d} differs between the chain used alone and interleaved with the other chain"})
            steps += 8
        except Exception as e:  # noqa
            return {"violations": viol + [exception_violation(e, ident)], "steps": steps, "outcome": "raises"}
        return {"violations": viol[:3], "steps": steps, "n_states": 2, "nontrivial": True, "outcome": f"interleaved:{'ok' if not viol else 'bad'}"}
    if case.get("train_between"):
        ident += "|trained_between"
        try:
            for order in orders:
                chain = list(order) + ([final] if final else [])
                label = ">".join(chain)
                m, src = build(prog, case["seed"])
                inp = inputs(prog, case["seed"])
                cur, prev_state, inter = m, None, []
                for i, t in enumerate(chain):
                    cur = apply(cur, t)
                    if prev_state is not None and t != "unit_scale":
                        # (unit_scale re-initialises its copy; every other transform copies values faithfully)
                        bad = [k for k, v in cur.state_dict().items() if not torch.equal(v, prev_state[k])]
                        if bad:
                            viol.append({"key": ident + "|copy_does_not_start_from_the_module_it_was_given",
                                         "msg": f"{label}: after '{t}' parameters {bad[:3]} differ from the (trained) module that was transformed"})
                            break
                    if i < len(chain) - 1:
                        torch._dynamo.reset()
                        call(cur, inp)
                        with torch.no_grad():
                            for j, p_ in enumerate(cur.parameters()):
                                p_.mul_(1.0 + 0.25 * (i + 1)).add_(0.125 * (j + 1))
                        prev_state = {k: v.clone() for k, v in cur.state_dict().items()}
                        inter.append((cur, prev_state))
                    steps += 1
                if viol:
                    break
                torch._dynamo.reset()
                out = call(cur, inp)
                for mi, st in inter:  # earlier modules of the chain keep their own (trained) values
                    if any(not torch.equal(v, st[k]) for k, v in mi.state_dict().items()):
                        viol.append({"key": ident + "|intermediate_state_changed", "msg": label})
                m2, _ = build(prog, case["seed"])
                ref = m2
                for t in chain:
                    ref = apply(ref, t)
                ref.load_state_dict(cur.state_dict())
                torch._dynamo.reset()
                d = same(out, call(ref, inp))
                if d:
                    viol.append({"key": ident + "|differs_from_untrained_chain_with_same_parameters", "msg": f"{label}: {d}"})
                steps += 2
        except Exception as e:  # noqa
            return {"violations": viol + [exception_violation(e, ident)], "steps": steps, "outcome": "raises"}
        return {"violations": viol[:3], "steps": steps, "n_states": len(orders), "nontrivial": True,
                "outcome": f"trained:{'ok' if not viol else 'bad'}"}
    try:
        for order in orders:
            chain = list(order) + ([final] if final else [])
            n_inter = max(len(chain) - 1, 0)
            for pattern in itertools.product([False, True], repeat=n_inter):
                m, src = build(prog, case["seed"])
                inp = inputs(prog, case["seed"])
                snap_state = {k: v.clone() for k, v in m.state_dict().items()}
                snap_out = call(copy.deepcopy(m), inp)
                cur = m
                mods = [m]
                if case.get("with_grads"):
                    call(m, inp)  # the module handed to the first transform already holds accumulated gradients
                for i, t in enumerate(chain):
                    g_before = [None if p.grad is None else p.grad.clone() for p in cur.parameters()]
                    nxt = apply(cur, t)
                    g_after = [p.grad for p in cur.parameters()]
                    if any((a is None) != (b is None) or (a is not None and not torch.equal(a, b)) for a, b in zip(g_before, g_after)):
                        viol.append({"key": ident + "|gradients_of_the_transformed_module_changed", "msg":
                                     f"{'>'.join(chain)}: applying '{t}' changed the .grad of the module it was given (chain position {i})"})
                    mods.append(nxt)
                    cur = nxt
                    if i < n_inter and pattern[i]:
                        torch._dynamo.reset()
                        call(cur, inp)  # the intermediate is used before being transformed further
                        steps += 1
                label = ">".join(chain) + "|called=" + "".join("1" if c else "0" for c in pattern)
                # ---- backends: every transform exactly once, unit scaling before quantisation
                names = [getattr(b, "__qualname__", type(b).__name__) for b in getattr(cur, "backends", [])]
                n_us = sum("unit_scaling_backend" in x for x in names)
                n_q = sum("quantisation_backend" in x for x in names)
                if len(names) != len(chain) or n_us != int(us) or n_q != int(bool(fmt)):
                    viol.append({"key": ident + "|backend_list", "msg": f"{label}: backends={names}"})
                if us and fmt and [i for i, x in enumerate(names) if "unit_scaling_backend" in x] > [i for i, x in enumerate(names) if "quantisation_backend" in x]:
                    viol.append({"key": ident + "|unit_scaling_after_quantisation", "msg": f"{label}: backends={names}"})
                # count backend invocations during the final calls
                counts = [0] * len(cur.backends)
                for bi, b in enumerate(list(cur.backends)):
                    def wrapped(gm: Any, ex: Any, b: Any = b, bi: int = bi) -> Any:
                        counts[bi] += 1
                        return b(gm, ex)
                    wrapped.__qualname__ = getattr(b, "__qualname__", type(b).__name__)
                    cur.backends[bi] = wrapped
                if case.get("failed_call"):
                    bad = tuple(torch.randn(tuple(a.shape[:-1]) + (a.shape[-1] + 3,)) if a.is_floating_point() else a for a in inp)
                    try:
                        cur(*bad)
                        viol.append({"key": ident + "|harness_bad_input_accepted", "msg": label})
                    except Exception:  # noqa - expected: the shapes do not fit
                        pass
                outs = [call(cur, inp) for _ in range(3)]  # (the module decides by itself when to re-trace)
                steps += 3
                if any(c != 1 for c in counts):
                    viol.append({"key": ident + "|backend_run_count", "msg": f"{label}: each backend should run once per trace, ran {counts}"})
                for k in (1, 2):
                    d = same(outs[k], outs[0])
                    if d:
                        viol.append({"key": ident + "|repeated_call_differs", "msg": f"{label}: call {k + 1} differs in {d}"})
                        break
                # ---- re-trace histories on the final module: a no-grad call, a call after ANOTHER
                # transformed module ran (it resets TorchDynamo), and a call with a new batch size
                with torch.no_grad(), mock.patch.object(torch, "randint", pinned_randint):
                    y_ng = cur(*[a.clone() for a in inp])
                if not torch.equal(y_ng, outs[0][0]) and final != "compile":
                    viol.append({"key": ident + "|no_grad_call_differs", "msg": label})
                other_prog = dict(FAMILIES["mlp"], first="x")
                other, _ = build(other_prog, case["seed"] + 1)
                call(T.simulate_fp8(other), inputs(other_prog, case["seed"]))
                d = same(call(cur, inp), outs[0], 2e-4 if final == "compile" else 0.0)
                if d:
                    viol.append({"key": ident + "|call_after_other_module_differs", "msg": f"{label}: {d}"})
                g3 = torch.Generator().manual_seed(4242)
                inp3 = tuple(torch.randn((3,) + tuple(a.shape[1:]), generator=g3).to(a.dtype) if a.is_floating_point() else a for a in inp)
                m3, _ = build(prog, case["seed"])
                fresh = m3
                for t in chain:
                    fresh = apply(fresh, t)
                exp3 = call(fresh, inp3)
                d = same(call(cur, inp3), exp3, 2e-4 if final == "compile" else 0.0)
                if d:
                    viol.append({"key": ident + "|new_batch_size_differs_from_fresh_chain", "msg": f"{label}: {d}"})
                steps += 4
                # ---- every INTERMEDIATE module of the chain still behaves like a fresh chain prefix
                for i in range(1, len(chain)):
                    mi = mods[i]
                    if len(getattr(mi, "backends", [])) != i:
                        viol.append({"key": ident + "|intermediate_backend_list_changed", "msg":
                                     f"{label}: module after {i} transform(s) now has {len(mi.backends)} backends"})
                    mp, _ = build(prog, case["seed"])
                    pre = mp
                    for t in chain[:i]:
                        pre = apply(pre, t)
                    d = same(call(mi, inp), call(pre, inp))
                    if d:
                        viol.append({"key": ident + "|intermediate_behaviour_changed", "msg": f"{label}: module after {i} transform(s): {d}"})
                    steps += 2
                # ---- the original and every intermediate are untouched and share no storage
                if any(v.dtype != snap_state[k].dtype or not torch.equal(snap_state[k], v) for k, v in m.state_dict().items()):
                    viol.append({"key": ident + "|original_state_changed", "msg": label})
                for i_, mm in enumerate(mods[1:], 1):
                    if any(v.dtype != snap_state[k].dtype for k, v in mm.state_dict().items() if k in snap_state):
                        viol.append({"key": ident + "|parameter_dtype_changed", "msg": f"{label}: module after {i_} transform(s)"})
                        break
                if any(p.grad is not None for p in m.parameters()) and not case.get("with_grads"):
                    viol.append({"key": ident + "|gradient_sent_to_original", "msg": label})
                d = same(call(m, inp), snap_out)
                if d:
                    viol.append({"key": ident + "|original_behaviour_changed", "msg": f"{label}: {d}"})
                # (parameters and ALL buffers, persistent or not: an in-place update of either on one module must not reach another)
                ptrs = [{p.data_ptr() for p in list(mm.parameters()) + list(mm.buffers()) if p.numel()} for mm in mods]
                for i, j in itertools.combinations(range(len(mods)), 2):
                    if ptrs[i] & ptrs[j]:
                        viol.append({"key": ident + "|storage_shared", "msg": f"{label}: modules {i} and {j} of the chain share parameter / buffer storage"})
                        break
                results.append((label, outs[0], cur, src))
                if len(viol) > 3:
                    break
            if len(viol) > 3:
                break
    except Exception as e:  # noqa
        v = exception_violation(e, ident)
        return {"violations": viol + [v], "steps": steps, "outcome": "raises"}

    # ---- differential oracle: all orders / call histories agree bit for bit
    if results and not viol:
        base_label, base_out, _, src = results[0]
        tol = 2e-4 if final == "compile" else 0.0
        for label, out, _, _ in results[1:]:
            d = same(out, base_out, tol)
            if d:
                viol.append({"key": ident + "|order_or_history_dependent", "msg": f"{label} vs {base_label}: {d} differs\n{src}"})
                break
    # ---- absolute oracle: hand-composed reference on the final module's parameters
    if results and not viol:
        label, out, cur, src = results[0]

        class Composed(UnitScaleSemantics):
            def __init__(self) -> None:
                super().__init__()
                self.q = QuantSemantics(*_fmt(fmt)) if fmt else None

            def fn(self, key: str) -> Any:
                base = UnitScaleSemantics.fn(self, key)
                if self.q is None or key not in QUANT_OPERANDS:
                    return base
                q = self.q

                def quantised(*a: Any, **k: Any) -> Any:
                    return q.call(key, a, k, {})

                return quantised

        ref_m, _ = build(prog, case["seed"])
        ref_m.load_state_dict(cur.state_dict())
        if us:
            sem: Any = Composed()
            import unit_scaling.functional as U

            if fmt:
                # the recipe's U.linear / U.attention calls are what gets quantised
                real_linear, real_sdpa = U.linear, U.scaled_dot_product_attention
                q = sem.q

                def ql(*a: Any, **k: Any) -> Any:
                    aa = list(a)
                    aa[0], aa[1] = st_fwd(q.fwd, aa[0]), st_fwd(q.fwd, aa[1])
                    return st_bwd(q.bwd, real_linear(*aa, **k))

                def qa(*a: Any, **k: Any) -> Any:
                    aa = list(a)
                    kk = dict(k)
                    for i, nm in enumerate(("query", "key", "value")):
                        if i < len(aa):
                            aa[i] = st_fwd(q.fwd, aa[i])
                        elif nm in kk:
                            kk[nm] = st_fwd(q.fwd, kk[nm])
                    return st_bwd(q.bwd, real_sdpa(*aa, **kk))

                with mock.patch.object(U, "linear", ql), mock.patch.object(U, "scaled_dot_product_attention", qa):
                    ref = call(_Wrap(prog, ref_m, sem), inp)
            else:
                ref = call(_Wrap(prog, ref_m, sem), inp)
            tol = 1e-5
        elif fmt:
            ref = call(_Wrap(prog, ref_m, QuantSemantics(*_fmt(fmt))), inp)
            tol = 0.0
        else:
            from models.programs import Semantics

            ref = call(_Wrap(prog, ref_m, Semantics()), inp)
            tol = 0.0
        if final == "compile":
            tol = max(tol, 2e-4)
        ref = (ref[0], {k: v for k, v in ref[1].items()})
        d = same(out, ref, tol)
        if d:
            viol.append({"key": ident + "|differs_from_hand_composed_reference", "msg": f"{label}: {d}\n{src}"})
    return {"violations": viol[:4], "steps": steps, "n_states": max(len(results), 1),
            "nontrivial": len(tset) + int(bool(final)) >= 2, "outcome": f"chains={len(results)}:{'ok' if not viol else 'bad'}"}


class _Wrap:
    """callable module-like wrapper running the reference interpreter on ref_m's parameters"""

    def __init__(self, prog: Dict[str, Any], ref_m: Any, sem: Any) -> None:
        self.prog, self.m, self.sem = prog, ref_m, sem

    def parameters(self) -> Any:
        return self.m.parameters()

    def __call__(self, *a: Any) -> Any:
        from models.programs import Interp

        return Interp(self.prog, self.m, self.sem).run(*a)
