"""C18 — scale tracking is purely observational; its metrics are the true statistics.

Explorer kind P through track_scales() and real TorchDynamo.  Oracles: (1) outputs and all
gradients bit-identical to the un-instrumented module; (2) for every float node the
recorded forward / backward metrics equal the statistics of the tensor / total gradient
captured at the same node by an independent stock torch.fx.Interpreter run of the graph
Dynamo captured (retain_grad); (3) no backward metrics where no gradient arrives, no
instrumentation of non-float values; (4) analyse_module leaves values/gradients intact and
every annotated scale is the statistic of a real intermediate.
"""

from __future__ import annotations

import itertools
import math
import re
from typing import Any, Dict, List

PROPERTY = "C18"
KEYS = ["linear:F_bias_kw", "linear:nn", "matmul:param", "gelu:F", "silu:F", "softmax:nn", "dropout:F_p0", "layer_norm:F_affine",
        "layer_norm:nn", "conv1d:F", "sdpa:causal_kw", "sdpa:mask_pos", "ulinear:uu", "usdpa:plain", "tanh", "relu",
        "mul_scalar", "neg", "reshape", "view_t", "rotate_half", "stack_mean", "masked", "index_rows", "with_zeros",
        "gate_softmax", "add_scalar", "add_param", "iadd_param", "view_inplace", "cmp_two", "cat_kw", "hand_scaled", "add_ones", "gather_argmax", "inf_mask_softmax", "row_mean_gate"]
SMALL = ["linear:nn", "gelu:F", "softmax:nn", "rotate_half", "stack_mean", "masked", "index_rows", "with_zeros", "reshape",
         "add_param", "sdpa:causal_kw", "neg"]
RULE = (
    "case = (program AST, first kind, sink, forward-only / forward+backward); every float node of "
    "the tracked graph is compared with an independent recording; non-trivial = the graph has "
    ">= 3 float nodes with non-degenerate statistics"
)
BOUND = {
    "quick": "all 1-instruction programs over 30 kinds x {sum,tensor,two_outputs} x {fwd, fwd+bwd}; all "
    "2-instruction programs over a 12-kind sub-alphabet; residual / fan-out shapes; embedding firsts; "
    "inputs with exact zeros; analyse_module on the fx-traceable ones",
    "thorough": "adds all 3-instruction programs over the sub-alphabet",
}
EXHAUSTIVE = {"quick": True, "thorough": True}
ASSUMPTIONS = [
    "A4 (program depth), A1 (one seeded value draw per program)",
    "the independent recording executes the graph captured by TorchDynamo (not library code) with "
    "torch.fx.Interpreter + retain_grad",
    "metrics compared to 1e-5 relative (float32 reductions), NaN == NaN for single-element std",
]
CHUNK = 4


def _progs(tier: str) -> List[Dict[str, Any]]:
    from models.programs import chains

    out: List[Dict[str, Any]] = []

    def add(items: Any, first: str = "x", sink: str = "sum", backward: bool = True, **kw: Any) -> None:
        out.append({"prog": dict({"items": items, "first": first, "sink": sink}, **kw), "backward": backward})

    for n, k in enumerate(KEYS):
        for sink in ("sum", "tensor", "two_outputs"):
            add([["op", k]], "x", sink, True)
        add([["op", k]], "x", "sum", False)
        add([["op", k]], ["emb", "emb_F", "emb_pos"][n % 3], "mse" if n % 2 else "cross_entropy", True)
        add([["op", k]], "x", "sum", True, x_zeros=True)
    for n, items in enumerate(chains(SMALL, 2)):
        if len(items) == 2:
            add(items, "x", ["sum", "two_outputs", "tensor"][n % 3], n % 5 != 0, x_zeros=(n % 4 == 0))
    # low-precision models (tracking must not change dtype / values) and a variable named `output`
    for n, k in enumerate(["linear:nn", "gelu:F", "softmax:nn", "layer_norm:nn", "matmul:param", "tanh", "neg", "stack_mean",
                           "add_param", "rotate_half", "hand_scaled"]):
        for dt in ("bfloat16", "float16", "float64"):
            add([["op", "linear:nn"], ["op", k]], "x", ["sum", "two_outputs", "tensor"][n % 3], True, dtype=dt)
        add([["op", k]], "x", ["sum", "two_outputs", "tensor"][n % 3], True, out_name="output")
    # frozen parameters and float buffers must stay frozen and report no backward metrics
    for n, k in enumerate(["linear:nn", "linear:F_bias_kw", "layer_norm:nn", "matmul:param", "with_zeros", "add_param", "ulinear:uu"]):
        add([["op", k], ["op", "gelu:F"], ["op", "with_zeros"]], ["x", "emb", "emb_pos"][n % 3], "sum", True, freeze_first=True)
        add([["op", "with_zeros"], ["op", k]], "x", "two_outputs", True, freeze_first=True)
    for order in ("skip_first", "branch_first"):
        for a, b in itertools.product(SMALL[:8], repeat=2):
            add([["op", "linear:nn"], ["res", [["op", a], ["op", b]], order], ["op", "stack_mean"]], "x", "two_outputs")
    if tier == "thorough":
        for n, items in enumerate(chains(SMALL, 3)):
            if len(items) == 3:
                add(items, "x", ["sum", "two_outputs", "tensor"][n % 3], True)
    return out


def cases(tier: str, seed: int) -> List[Dict[str, Any]]:
    out = [dict(c, kind="track", seed=seed) for c in _progs(tier)]
    # histories: the SAME tracked module called several times; metrics must describe the last call
    for n, k in enumerate(KEYS):
        for calls in (["fb", "f"], ["f", "fb"], ["fb", "fb"], ["fb", "other", "fb"], ["fb", "inspect", "fb"], ["f", "inspect", "f"], ["fb", "upd", "fb"], ["f", "upd", "f"]):
            out.append({"kind": "track", "prog": {"items": [["op", "linear:nn"], ["op", k]], "first": "x",
                                                  "sink": "two_outputs" if n % 2 else "sum"},
                        "backward": calls[-1] == "fb", "calls": calls, "seed": seed})
    # histories with a recompilation: a Python switch in forward() is flipped between calls, so the second
    # call is compiled to a smaller (on -> off) or larger (off -> on) graph; and higher-order differentiation
    for n, k in enumerate(KEYS):
        for calls in (["fb", "fb-"], ["fb-", "fb"], ["f", "fb-"], ["fb", "f-"]):
            out.append({"kind": "track", "prog": {"items": [["op", "linear:nn"], ["op", k]], "first": "x", "flag_tail": True,
                                                  "sink": "two_outputs" if n % 2 else "sum"},
                        "backward": calls[-1].startswith("fb"), "calls": calls, "seed": seed})
        out.append({"kind": "track", "prog": {"items": [["op", "linear:nn"], ["op", k], ["op", "tanh"]], "first": "x", "sink": "sum"},
                    "backward": True, "calls": ["dd"], "seed": seed})
        out.append({"kind": "track", "prog": {"items": [["op", k], ["op", "linear:F_bias_kw"]], "first": "x", "sink": "two_outputs"},
                    "backward": True, "calls": ["fb", "dd"], "seed": seed})
    # tier A: the tracking backend called directly on FX graphs emitted from the AST (deeper programs)
    from models.programs import chains

    akeys = [k for k in SMALL if k != "index_rows"] + ["cat_kw", "cmp_two", "iadd_param"]
    depth = 3 if tier == "thorough" else 2
    for n, items in enumerate(chains(akeys, depth)):
        out.append({"kind": "track", "tier_a": True, "prog": {"items": items, "first": "x", "sink": ["sum", "two_outputs", "tensor"][n % 3]},
                    "backward": n % 4 != 0, "seed": seed})
    for n, (a, b, c) in enumerate(itertools.product(akeys[:5], repeat=3)):
        out.append({"kind": "track", "tier_a": True, "prog": {"items": [["op", a], ["res", [["op", b], ["op", c]], "skip_first"], ["op", "stack_mean"]],
                                                             "first": "x", "sink": "two_outputs"}, "backward": [True, False, True][n % 3], "seed": seed,
                    "calls": [["fb"], ["fb", "f"], ["f", "fb"]][n % 3]})
    for n, k in enumerate(KEYS):
        out.append({"kind": "analyse", "prog": {"items": [["op", "linear:nn"], ["op", k], ["op", "gelu:F"]], "first": "x",
                                                "sink": "sum" if n % 2 else "tensor"}, "seed": seed})
        out.append({"kind": "analyse", "recurse": False, "seed": seed,
                    "prog": {"items": [["op", "linear:nn"], ["op", k], ["op", "gelu:nn"], ["op", "layer_norm:nn"]], "first": "x", "sink": "sum" if n % 2 else "tensor"}})
    return out


def _eq(a: float, b: float, scale: float = 0.0) -> bool:
    """statistics agree to float32 reduction accuracy; `scale` = max |x| of the tensor: vectorised
    kernels (erf, exp) may differ in the last bits between two executions on differently aligned
    buffers, which shows up in abs_min / abs_mean of small values as an ABSOLUTE error of ~1e-7*scale"""
    if isinstance(a, float) and isinstance(b, float) and math.isnan(a) and math.isnan(b):
        return True
    if not (math.isfinite(a) and math.isfinite(b)):
        return a == b  # +-inf statistics of a tensor with non-finite entries must be reported as such
    return abs(a - b) <= 1e-5 * max(abs(a), abs(b)) + 1e-7 + 2e-6 * scale


def _scale(t: Any) -> float:
    """max |x| over the FINITE entries (the absolute-error allowance of `_eq`)"""
    a = t.detach().abs().flatten()
    a = a[a.isfinite()]
    return float(a.max()) if a.numel() else 0.0


def run_case(case: Dict[str, Any]) -> Dict[str, Any]:
    import copy

    import torch
    from mc.core import exception_violation
    from models.programs import build, inputs, keys_of
    from models.tracking import run_plain, stats, track

    prog = case["prog"]
    keys = keys_of(prog["items"])
    kinds = sorted({k.split(":")[0] for k in keys})
    viol: List[Dict[str, str]] = []

    if case["kind"] == "analyse":
        import unit_scaling.utils as uutils
        from torch import fx

        ident = f"analyse|ops={'+'.join(kinds)}"
        m, src = build(prog, case["seed"])
        inp = inputs(prog, case["seed"])
        try:
            fx.symbolic_trace(copy.deepcopy(m))
        except Exception:  # noqa - not fx-traceable: analyse_module is not applicable
            return {"skipped": "program not traceable by stock torch.fx"}
        plain = copy.deepcopy(m)
        y_plain, g_plain = run_plain(plain, inp, True)
        before = {k: v.clone() for k, v in m.state_dict().items()}
        x = inp[0].clone().requires_grad_(True)
        up = None if prog["sink"] == "sum" else torch.linspace(-1, 1, y_plain[0].numel()).reshape(y_plain[0].shape)
        recurse = bool(case.get("recurse", True))
        if not recurse:
            ident += "|recurse_modules=False"
        try:
            if recurse:
                code = uutils.analyse_module(m, (x,), up, syntax_highlight=False)
            else:
                code = uutils.analyse_module(m, (x,), up, recurse_modules=False, syntax_highlight=False)
        except Exception as e:  # noqa
            v = exception_violation(e, ident)
            v["msg"] += "\n" + src
            return {"violations": [v], "outcome": "raises"}
        if any(not torch.equal(before[k], v) for k, v in m.state_dict().items()):
            viol.append({"key": ident + "|parameters_modified", "msg": src})
        for j, p in enumerate(m.parameters()):
            a, b = p.grad, g_plain[str(j)]
            if (a is None) != (b is None) or (a is not None and not torch.equal(a, b)):
                viol.append({"key": ident + "|parameter_gradient_changed", "msg": f"param {j}\n" + src})
                break
        if x.grad is None or not torch.equal(x.grad, g_plain["<input>"]):
            viol.append({"key": ident + "|input_gradient_changed", "msg": src})
        # every annotated (fwd, bwd) std pair is the statistic of a real intermediate
        r = track(prog, case["seed"], True)
        pairs = []
        for name, sn in r["rec"].items():
            if hasattr(sn, "value"):
                v, gr = sn.value, sn.grad
                pairs.append((float(v.std()) if v.numel() > 1 else float("nan"),
                              float(gr.std()) if gr is not None and gr.numel() > 1 else None))
        ann = re.findall(r"\(-> ([0-9.e+-]+|n/a|nan), <- ([0-9.e+-]+|n/a|nan)\)", code)
        # completeness: as many annotated lines as float-tensor nodes in an independent stock-fx trace of the same
        # module (sub-modules inlined, or kept as call_module leaves when recurse_modules=False)
        class _Inline(fx.Tracer):
            def is_leaf_module(self, mod: Any, qualname: str) -> bool:
                return False

        tracer = _Inline() if recurse else fx.Tracer()
        mm = copy.deepcopy(m)
        gmod = fx.GraphModule(mm, tracer.trace(mm))
        nfloat_nodes = [0]

        class _Count(fx.Interpreter):
            def run_node(self, n: Any) -> Any:
                o = super().run_node(n)
                if n.op != "output" and isinstance(o, torch.Tensor) and o.is_floating_point():
                    nfloat_nodes[0] += 1
                return o

        _Count(gmod).run(inp[0].clone())
        from models.programs import ALPHABET as _AB

        plain_torch = all(not _AB[k]["fn"].startswith("U.") and _AB[k]["fn"] not in ("hand_scaled", "custom_gelu") for k in keys)
        # (unit-scaled functions are kept as leaf calls by the library's tracer, by design: no independent count there)
        if plain_torch and len(ann) != nfloat_nodes[0]:
            viol.append({"key": ident + "|float_tensors_without_scales", "msg":
                         f"{len(ann)} annotated lines for {nfloat_nodes[0]} float tensors of the traced module\n{code}"})
        if any(f == "n/a" for f, _ in ann):
            viol.append({"key": ident + "|forward_scale_missing", "msg": f"a float tensor is annotated without a forward scale\n{code}"})
        nchk = 0
        for f, b in ann:
            if f in ("n/a", "nan"):
                continue
            fv = float(f)
            nchk += 1
            ok = False
            for pf, pb in pairs:
                if pf == pf and abs(pf - fv) <= 6e-3 * max(abs(pf), 1e-3) + 1e-9:
                    if b in ("n/a", "nan") or pb is None or pb != pb or abs(pb - float(b)) <= 6e-3 * max(abs(pb), 1e-3) + 1e-9:
                        ok = True
                        break
            if not ok:
                viol.append({"key": ident + "|annotated_scale_is_no_real_statistic", "msg": f"(-> {f}, <- {b}) matches no intermediate\n{code}"})
                break
        return {"violations": viol[:3], "steps": nchk, "nontrivial": nchk >= 3, "outcome": "analyse"}

    ident = f"track|first={prog['first']}|sink={prog['sink']}|bwd={int(case['backward'])}|ops={'+'.join(kinds)}"
    if case.get("tier_a"):
        ident = "fx|" + ident
    try:
        r = track(prog, case["seed"], case["backward"], case.get("calls"), tier_a=bool(case.get("tier_a")))
    except Exception as e:  # noqa
        v = exception_violation(e, ident)
        return {"violations": [v], "outcome": "raises"}
    if "skipped" in r:
        return {"skipped": r["skipped"]}
    if case.get("calls"):
        ident += "|calls=" + ">".join(case["calls"])
    src = r["src"]
    if not r["captured"]:
        return {"violations": [{"key": ident + "|backend_not_invoked", "msg": src}]}
    # (1) purely observational (bit-identical).  A difference confined to the last bits (<= 1e-5
    # relative) is reported under its own clause name so that it can be told from a gross change.
    def differ(a: Any, b: Any) -> str:
        if (a is None) != (b is None):
            return "_changed"
        if a is None or torch.equal(a, b):
            return ""
        if a.shape == b.shape:
            sc = max(float(b.abs().max()), 1e-30)
            # (a gradient that is zero in exact arithmetic, e.g. d sum(softmax)/dx, is rounding noise of size ~eps)
            if float((a - b).abs().max()) <= 1e-5 * sc + 64 * torch.finfo(b.dtype).eps:
                return "_changed_last_bits"
        return "_changed"

    if len(r["y_t"]) != len(r["y_plain"]):
        viol.append({"key": ident + "|output_changed", "msg": src})
    else:
        for a, b in zip(r["y_t"], r["y_plain"]):
            d = differ(a, b)
            if d:
                viol.append({"key": ident + "|output" + d, "msg": f"max abs diff {(a - b).abs().max().item() if a.shape == b.shape else 'shape'}\n" + src})
                break
    dd = bool(case.get("calls")) and case["calls"][-1].startswith("dd")
    for n, b in r["g_plain"].items():
        d = differ(r["g_t"].get(n), b)
        if dd and d == "_changed_last_bits":
            # second-order gradients: the extra identity nodes change the order in which the autograd engine
            # accumulates fan-out contributions of the double-backward graph (float addition is not associative)
            continue
        if d:
            viol.append({"key": ident + "|gradient" + d, "msg": f"{n}\n" + src})
            break
    if r.get("flags"):
        if any(a != b for a, b in r["flags"]["params"]) or any(r["flags"]["buffers"]):
            viol.append({"key": ident + "|requires_grad_changed", "msg": f"parameters (original, tracked) {r['flags']['params']} buffers {r['flags']['buffers']}\n" + src})
    # (2)/(3) metrics
    nfloat = 0
    if case.get("calls") and case["calls"][-1].startswith("dd"):
        # higher-order differentiation: only "purely observational" is decided (first and second gradients)
        return {"violations": viol[:3], "steps": 4, "nontrivial": any(v is not None for k, v in r["g_plain"].items() if k.startswith("second")),
                "outcome": "double_backward:" + ("ok" if not viol else "bad")}
    for node in r["graph"].nodes:
        if node.op == "output":
            continue
        snap = r["rec"].get(node.name)
        is_float = hasattr(snap, "value")
        v = snap.value if is_float else snap
        mt = node.meta.get("metrics")
        if not is_float:
            if mt is not None or node.meta.get("outputs_float_tensor", False):
                viol.append({"key": ident + "|non_float_instrumented", "msg": f"node {node.name}\n" + src})
            continue
        if mt is None:
            viol.append({"key": ident + "|float_node_without_metrics", "msg": f"node {node.name}\n" + src})
            continue
        nfloat += 1
        st = stats(v)
        bad = [k for k in st if not _eq(float(getattr(mt.fwd, k)), float(st[k]), _scale(v) if k != "numel" else 0.0)]
        if bad:
            viol.append({"key": ident + f"|forward_metric_wrong|{'+'.join(bad)}",
                         "msg": f"node {node.name}: recorded {mt.fwd} vs recomputed {st}\n" + src})
        g = snap.grad if case["backward"] else None
        if g is None:
            if mt.bwd is not None:
                viol.append({"key": ident + "|backward_metric_without_gradient", "msg": f"node {node.name}\n" + src})
        elif mt.bwd is None:
            viol.append({"key": ident + "|backward_metric_missing", "msg": f"node {node.name}\n" + src})
        else:
            sg = stats(g)
            bad = [k for k in sg if not _eq(float(getattr(mt.bwd, k)), float(sg[k]), _scale(g) if k != "numel" else 0.0)]
            if bad:
                viol.append({"key": ident + f"|backward_metric_wrong|{'+'.join(bad)}",
                             "msg": f"node {node.name}: recorded {mt.bwd} vs total gradient {sg}\n" + src})
        if len(viol) > 3:
            break
    return {"violations": viol[:3], "steps": nfloat, "nontrivial": nfloat >= 3,
            "outcome": f"floatnodes={min(nfloat, 20)}:{'ok' if not viol else 'bad'}"}
