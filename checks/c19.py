"""C19 — graph pruning removes exactly the intended nodes, keeps the graph connected.

Explorer kind P + L: every tracked graph of a family of generated programs (list-argument
ops, keyword tensor args, integer index tensors, same-scale views/negations, multi-output)
x {prune_non_float_tensors, prune_same_scale_tensors with rtol in {2^-16, 2^-8, 2^-2},
prune_selected_nodes with EVERY subset of the graph's distinct targets of size <= 2 and the
full set, and the documented compositions}.  Oracle: an independent reference pruning that
computes the expected surviving node list AND the expected argument structure of every
survivor (removed nodes contracted onto their single float input, or cut).
"""

from __future__ import annotations

import itertools
from typing import Any, Dict, List, Optional, Tuple

PROPERTY = "C19"
RULE = (
    "case = (program, pruning helper, parameter); each case tracks the program through the real "
    "API, prunes, and compares node list + every surviving node's args/kwargs with the reference "
    "pruning; non-trivial = at least one node is removed and at least one survives with a rewired argument"
)
BOUND = {
    "quick": "60 programs (1-3 instructions incl. cat/stack lists, masks, index tensors, views, residual "
    "fan-out, multiple outputs, embeddings) x (non-float, same-scale x 3 rtol, all target subsets of "
    "size <= 2 + full set, 2 compositions)",
    "thorough": "adds all 2-instruction programs over a 12-kind sub-alphabet",
}
EXHAUSTIVE = {"quick": True, "thorough": True}
ASSUMPTIONS = [
    "A4 (program family), A1 (one seeded draw: metrics values)",
    "where the statement is ambiguous the oracle accepts both readings: a removed node whose only "
    "float input is nested in a list / passed by keyword may be bypassed or cut; a same-scale "
    "decision is required only when comparing against the original input and against the nearest "
    "surviving producer agree (the tolerance is not transitive)",
]
CHUNK = 2


def _progs(tier: str) -> List[Dict[str, Any]]:
    from checks.c18 import SMALL
    from models.programs import chains

    out: List[Dict[str, Any]] = []

    def add(items: Any, first: str = "x", sink: str = "sum", backward: bool = True) -> None:
        out.append({"prog": {"items": items, "first": first, "sink": sink}, "backward": backward})

    singles = ["rotate_half", "stack_mean", "masked", "index_rows", "reshape", "view_t", "neg", "sdpa:mask_kw", "sdpa:mask_pos",
               "linear:F_bias_kw", "layer_norm:F_affine", "conv1d:F", "with_zeros", "gate_softmax", "add_param", "mul_scalar", "cmp_two", "cat_kw", "gather_argmax", "softmax:F",
               "mul_1p3", "div_1p3", "mul_1p35", "add_view_both", "and_mask_both"]
    for n, k in enumerate(singles):
        add([["op", k]], "x", ["sum", "two_outputs", "tensor"][n % 3])
        add([["op", "linear:nn"], ["op", k], ["op", "neg"]], ["x", "emb_pos", "emb"][n % 3], "two_outputs" if n % 2 else "mse")
    # chains whose members are each within rtol of their producer but cumulatively beyond it (order of comparison matters),
    # and graphs holding different targets with one __name__ (operator.add / torch.add, operator.neg / torch.neg, ...)
    for a, b in (("mul_1p2", "mul_1p2"), ("mul_1p3", "mul_1p3"), ("mul_1p2", "mul_1p3"), ("div_1p3", "div_1p3"), ("mul_1p3", "mul_1p2")):
        add([["op", a], ["op", b], ["op", "reshape"]], "x", "sum")
        add([["op", "linear:nn"], ["op", a], ["op", b], ["op", "neg"]], "x", "two_outputs")
    for a, b in (("add_scalar", "torch_add_scalar"), ("neg", "torch_neg"), ("mul_scalar", "torch_mul_scalar"), ("torch_add_scalar", "add_scalar")):
        add([["op", a], ["op", "tanh"], ["op", b]], "x", "sum")
        add([["op", "linear:nn"], ["op", b], ["op", a]], "x", "tensor")
    # TorchDynamo names nodes after local variables: a compute node called `output`
    for n, k in enumerate(["linear:nn", "neg", "masked", "reshape", "rotate_half"]):
        out.append({"prog": {"items": [["op", k]], "first": "x", "sink": ["sum", "two_outputs", "tensor"][n % 3], "out_name": "output"},
                    "backward": True})
    for a, b in itertools.product(["rotate_half", "reshape", "masked", "index_rows"], ["neg", "stack_mean", "gelu:F"]):
        add([["op", "linear:nn"], ["res", [["op", a], ["op", b]], "skip_first"], ["op", "rotate_half"]], "x", "two_outputs")
        add([["op", a], ["op", b]], "x", "sum", False)
    if tier == "thorough":
        for n, items in enumerate(chains(SMALL, 2)):
            if len(items) == 2:
                add(items, "x", ["sum", "two_outputs", "tensor"][n % 3])
    return out


def cases(tier: str, seed: int) -> List[Dict[str, Any]]:
    from models.programs import chains

    out = [dict(c, kind="prune", seed=seed) for c in _progs(tier)]
    # tier A: tracked graphs obtained by calling the tracking backend on emitted FX graphs
    akeys = ["linear:nn", "gelu:F", "rotate_half", "stack_mean", "masked", "with_zeros", "reshape", "neg", "cat_kw",
             "cmp_two", "view_t", "mul_scalar", "sdpa:mask_kw", "gather_argmax"]
    depth = 3 if tier == "thorough" else 2
    for n, items in enumerate(chains(akeys, depth)):
        out.append({"kind": "prune", "tier_a": True, "prog": {"items": items, "first": "x", "sink": ["sum", "two_outputs", "tensor"][n % 3]},
                    "backward": n % 3 != 0, "seed": seed})
    return out


# --------------------------------------------------------------------------- reference
def _struct(a: Any) -> Any:
    """JSON-like structure of an fx argument with nodes replaced by ('N', name)."""
    from torch.fx.node import Node

    if isinstance(a, Node):
        return ("N", a.name)
    if isinstance(a, (list, tuple)):
        return (type(a).__name__, tuple(_struct(x) for x in a))
    if isinstance(a, dict):
        return ("dict", tuple((k, _struct(v)) for k, v in a.items()))
    if isinstance(a, slice):
        return ("slice", _struct(a.start), _struct(a.stop), _struct(a.step))
    return ("C", repr(a))


def _map_struct(s: Any, f: Any) -> Any:
    """apply f to node names inside a structure; f returns a LIST of acceptable names (None = cut)"""
    if s[0] == "N":
        return ("ALT", tuple(("N", x) if x is not None else ("C", "None") for x in f(s[1])))
    if s[0] in ("list", "tuple", "immutable_list"):
        return (s[0], tuple(_map_struct(x, f) for x in s[1]))
    if s[0] == "dict":
        return ("dict", tuple((k, _map_struct(v, f)) for k, v in s[1]))
    if s[0] == "slice":
        return ("slice",) + tuple(_map_struct(x, f) for x in s[1:])
    return s


def _match(expected: Any, actual: Any) -> bool:
    if expected[0] == "ALT":
        return any(_match(e, actual) for e in expected[1])
    if expected[0] in ("list", "tuple", "immutable_list"):
        return actual[0] in ("list", "tuple", "immutable_list") and len(expected[1]) == len(actual[1]) and all(
            _match(e, a) for e, a in zip(expected[1], actual[1]))
    if expected[0] == "dict":
        return actual[0] == "dict" and len(expected[1]) == len(actual[1]) and all(
            ke == ka and _match(ve, va) for (ke, ve), (ka, va) in zip(expected[1], actual[1]))
    if expected[0] == "slice":
        return actual[0] == "slice" and all(_match(e, a) for e, a in zip(expected[1:], actual[1:]))
    return expected == actual


def _snapshot(graph: Any) -> List[Any]:
    return [(n.name, n.op, str(n.target), _struct(n.args), _struct(n.kwargs), tuple(sorted(n.meta.keys()))) for n in graph.nodes]


class Ref:
    """original graph facts by node name"""

    def __init__(self, graph: Any) -> None:
        from torch.fx.node import Node

        self.order = [n.name for n in graph.nodes]
        self.op = {n.name: n.op for n in graph.nodes}
        self.target = {n.name: n.target for n in graph.nodes}
        self.is_float = {n.name: bool(n.meta.get("outputs_float_tensor", False)) for n in graph.nodes}
        self.metrics = {n.name: n.meta.get("metrics") for n in graph.nodes}
        self.args = {n.name: _struct(n.args) for n in graph.nodes}
        self.kwargs = {n.name: _struct(n.kwargs) for n in graph.nodes}
        self.top = {n.name: [a.name for a in n.args if isinstance(a, Node)] for n in graph.nodes}
        self.all_inputs = {n.name: [a.name for a in n.all_input_nodes] for n in graph.nodes}


def _same(a: Any, b: Any, rtol: float) -> bool:
    import math

    def close(x: Any, y: Any) -> bool:
        return math.isclose(x.mean_abs, y.mean_abs, rel_tol=rtol)

    if a.bwd is None and b.bwd is None:
        return close(a.fwd, b.fwd)
    if a.bwd is None or b.bwd is None:
        return False
    return close(a.fwd, b.fwd) and close(a.bwd, b.bwd)


def _check_result(ref: Ref, result: Any, removed: Dict[str, List[Optional[str]]], ident: str, src: str) -> List[Dict[str, str]]:
    """removed: name -> list of acceptable replacements (None = cut).  Checks order + args."""
    viol: List[Dict[str, str]] = []
    try:
        result.lint()
    except Exception as e:  # noqa
        viol.append({"key": ident + "|lint_fails", "msg": f"{type(e).__name__}: {e}\n" + src})
        return viol
    got = [n.name for n in result.nodes]
    want = [x for x in ref.order if x not in removed]
    if got != want:
        extra = [x for x in got if x not in want]
        missing = [x for x in want if x not in got]
        viol.append({"key": ident + "|node_list", "msg": f"unexpectedly kept {extra}, unexpectedly removed {missing}, "
                     f"order ok={sorted(got) == sorted(want)}\n" + src})
        return viol

    def resolve(name: str) -> List[Optional[str]]:
        if name not in removed:
            return [name]
        out: List[Optional[str]] = []
        for r in removed[name]:
            if r is None:
                out.append(None)
            else:
                out += resolve(r)
        return list(dict.fromkeys(out))

    for n in result.nodes:
        ea = _map_struct(ref.args[n.name], resolve)
        ek = _map_struct(ref.kwargs[n.name], resolve)
        if not _match(ea, _struct(n.args)) or not _match(ek, _struct(n.kwargs)):
            viol.append({"key": ident + "|consumer_not_rewired", "msg":
                         f"node {n.name}: args={n.args} kwargs={n.kwargs}; original args={ref.args[n.name]} kwargs={ref.kwargs[n.name]}; "
                         f"removed={ {k: v for k, v in removed.items()} }\n" + src})
            break
    return viol


def _ref_non_float(ref: Ref) -> Dict[str, List[Optional[str]]]:
    """Removal happens in graph order and each removed node is contracted onto its single float
    input AS SEEN AT THAT MOMENT, so a chain float -> int -> int -> float-consumer stays connected
    ("keeps the graph connected").  Where a node's only float input is nested / keyword, or it has
    several float inputs, both readings are accepted."""
    removed: Dict[str, List[Optional[str]]] = {}

    def cur(name: str) -> Optional[str]:
        while name in removed:
            nxt = removed[name][0]
            if nxt is None:
                return None
            name = nxt
        return name

    for name in ref.order:
        if ref.op[name] == "output" or ref.is_float[name]:
            continue
        top = [c for c in (cur(a) for a in ref.top[name]) if c is not None and ref.is_float[c]]
        allf = [c for c in dict.fromkeys(cur(a) for a in ref.all_inputs[name]) if c is not None and ref.is_float[c]]
        if len(allf) == 1 and len(top) == 1:
            removed[name] = [top[0]]
        elif len(allf) == 1:
            removed[name] = [None, allf[0]]  # only float input nested / keyword: either reading
        elif len(top) == 1:
            removed[name] = [top[0], None]  # several float inputs, one of them top-level positional
        else:
            removed[name] = [None]
    return removed


def _ref_same_scale(ref: Ref, rtol: float, result_names: set) -> Dict[str, List[Optional[str]]]:
    removed: Dict[str, List[Optional[str]]] = {}

    def cur(name: str) -> Optional[str]:
        while name in removed:
            nxt = removed[name][0]
            if nxt is None:
                return None
            name = nxt
        return name

    for name in ref.order:
        if ref.op[name] == "output" or not ref.is_float[name]:
            continue
        top_now = [cur(a) for a in ref.top[name]]
        fl_now = [a for a in top_now if a is not None and ref.is_float[a]]
        fl_orig = [a for a in ref.top[name] if ref.is_float[a]]
        d_now = len(fl_now) == 1 and ref.metrics[name] is not None and _same(ref.metrics[name], ref.metrics[fl_now[0]], rtol)
        d_orig = len(fl_orig) == 1 and ref.metrics[name] is not None and _same(ref.metrics[name], ref.metrics[fl_orig[0]], rtol)
        if d_now == d_orig:
            decide = d_now
        else:
            decide = name not in result_names  # readings disagree: accept what the helper did
        if decide and len(fl_now) == 1:
            removed[name] = [fl_now[0]]
        elif decide and len(fl_orig) == 1:
            removed[name] = [fl_orig[0]]
    return removed


def run_case(case: Dict[str, Any]) -> Dict[str, Any]:
    import copy

    from mc.core import exception_violation
    from models.programs import keys_of
    from models.tracking import track
    from unit_scaling.transforms import prune_non_float_tensors, prune_same_scale_tensors, prune_selected_nodes

    prog = case["prog"]
    kinds = sorted({k.split(":")[0] for k in keys_of(prog["items"])})
    base = ("fx|" if case.get("tier_a") else "") + f"ops={'+'.join(kinds)}"
    try:
        r = track(prog, case["seed"], case["backward"], tier_a=bool(case.get("tier_a")))
    except Exception as e:  # noqa
        return {"violations": [exception_violation(e, "track|" + base)], "outcome": "raises"}
    graph, src = r["graph"], r["src"]
    viol: List[Dict[str, str]] = []
    steps = 0
    nontriv = False
    ref = Ref(graph)

    def call(ident: str, fn: Any, g: Any, *a: Any) -> Any:
        try:
            return fn(g, *a)
        except Exception as e:  # noqa
            v = exception_violation(e, ident)
            v["msg"] += "\n" + src
            viol.append(v)
            return None

    # ---- non-float
    before = _snapshot(graph)
    ident = f"non_float|{base}"
    res_nf = call(ident, prune_non_float_tensors, graph)
    steps += 1
    if _snapshot(graph) != before:
        viol.append({"key": ident + "|input_graph_modified", "msg": src})
    if res_nf is not None:
        rem = _ref_non_float(ref)
        viol += _check_result(ref, res_nf, rem, ident, src)
        nontriv = nontriv or bool(rem)
    # ---- same-scale
    for rtol in (2.0**-16, 2.0**-8, 2.0**-2):
        ident = f"same_scale|rtol=2^{int(round(__import__('math').log2(rtol)))}|{base}"
        before = _snapshot(graph)
        res = call(ident, prune_same_scale_tensors, graph, rtol)
        steps += 1
        if _snapshot(graph) != before:
            viol.append({"key": ident + "|input_graph_modified", "msg": src})
        if res is not None:
            rem = _ref_same_scale(ref, rtol, {n.name for n in res.nodes})
            viol += _check_result(ref, res, rem, ident, src)
            nontriv = nontriv or bool(rem)
    # ---- composition: same-scale after non-float (documented usage)
    if res_nf is not None:
        ident = f"compose_nf_then_same|{base}"
        ref2 = Ref(res_nf)
        before2 = _snapshot(res_nf)
        res = call(ident, prune_same_scale_tensors, res_nf, 2.0**-8)
        steps += 1
        if _snapshot(res_nf) != before2 or res is res_nf:
            viol.append({"key": ident + "|input_graph_modified", "msg": "input = the result of prune_non_float_tensors (a graph no module owns)\n" + src})
        elif res is not None:
            viol += _check_result(ref2, res, _ref_same_scale(ref2, 2.0**-8, {n.name for n in res.nodes}), ident, src)
    # ---- the copying helpers on a graph that no GraphModule owns (the caller's own deep copy of scales_graph())
    for hname, fn_, extra in (("non_float", prune_non_float_tensors, ()), ("same_scale", prune_same_scale_tensors, (2.0**-2,))):
        gcopy = copy.deepcopy(graph)
        before3 = _snapshot(gcopy)
        ident = f"{hname}|on_detached_copy|{base}"
        res = call(ident, fn_, gcopy, *extra)
        steps += 1
        if _snapshot(gcopy) != before3 or res is gcopy:
            viol.append({"key": ident + "|input_graph_modified", "msg": src})
    # ---- selective pruning: every subset of distinct targets of size <= 2, and the full set
    targets = []
    for n in graph.nodes:
        if n.op in ("call_function", "call_method") and n.target not in targets:
            targets.append(n.target)
    # ---- call histories on ONE graph object: the copying helpers are pure functions of the graph's current content
    for hname, fn_, extra in (("non_float", prune_non_float_tensors, ()), ("same_scale", prune_same_scale_tensors, (2.0**-8,))):
        ident = f"{hname}|repeated_calls|{base}"
        gobj = copy.deepcopy(graph)
        r1 = call(ident, fn_, gobj, *extra)
        if r1 is None:
            continue
        sig1 = _snapshot(r1)
        tg1 = [n.target for n in r1.nodes if n.op in ("call_function", "call_method")]
        if tg1:
            call(ident, prune_selected_nodes, r1, [tg1[0]])  # the caller trims the RESULT in place
        r2 = call(ident, fn_, gobj, *extra)
        steps += 2
        if r2 is not None and (r2 is r1 or _snapshot(r2) != sig1):
            viol.append({"key": ident + "|second_call_differs_from_first", "msg": "same (unchanged) input graph object pruned twice\n" + src})
        if targets:
            call(ident, prune_selected_nodes, gobj, [targets[-1]])  # ... and trims the INPUT graph in place
            r3 = call(ident, fn_, gobj, *extra)
            r4 = call(ident, fn_, copy.deepcopy(gobj), *extra)
            steps += 2
            if r3 is not None and r4 is not None and _snapshot(r3) != _snapshot(r4):
                viol.append({"key": ident + "|result_ignores_in_place_edit_of_the_input", "msg": src})
    subsets: List[Tuple[Any, ...]] = [()]
    for k in (1, 2):
        subsets += list(itertools.combinations(targets, k))
    subsets.append(tuple(targets))
    for sub in subsets:
        g2 = copy.deepcopy(graph)
        ref3 = Ref(g2)
        names = "+".join(sorted(getattr(t, "__name__", str(t)) for t in sub)) if len(sub) <= 2 else "ALL"
        ident = f"selected|{base}|targets={names if len(names) < 60 else 'pair'}"
        res = call(ident, prune_selected_nodes, g2, list(sub))
        steps += 1
        if res is None:
            continue
        rem = {nm: [None] for nm in ref3.order if ref3.target[nm] in sub and ref3.op[nm] != "output"}
        viol += _check_result(ref3, res, rem, ident, src)
        if len(viol) > 4:
            break
    # de-duplicate on key
    uniq: Dict[str, Dict[str, str]] = {}
    for v in viol:
        uniq.setdefault(v["key"], v)
    return {"violations": list(uniq.values())[:4], "steps": steps, "nontrivial": nontriv,
            "outcome": f"nodes={min(len(ref.order), 30)}:{'ok' if not viol else 'bad'}"}
