"""C20 — eager and torch.compile execution of scaled ops agree (fx: forward values).

Explorer kinds L + P: every public function at its default configuration and all
single-coordinate deviations (hyperparameters, constraints, shapes, dtype in {float32,
float64, bfloat16}); every public module; all compositions of length 2 over a unary
alphabet and single-deviation spines of length 6; each compiled with aot_eager (quick) or
inductor (thorough) and compared - outputs, all gradients, and the fitted forward/backward
scalars - with eager execution.  torch.fx.symbolic_trace + GraphModule for forward values.
"""

from __future__ import annotations

import itertools
from typing import Any, Dict, List

PROPERTY = "C20"
UNARY = ["gelu", "silu", "softmax", "layer_norm", "rms_norm", "dropout0", "linear", "hand_scaled", "add_one_elem"]
SPINE = ["linear", "gelu", "layer_norm", "softmax", "silu", "rms_norm"]
MODULES = ["GELU", "SiLU", "Softmax", "Linear", "LinearReadout", "Conv1d", "LayerNorm", "RMSNorm", "Embedding",
           "CrossEntropyLoss", "MLP", "MHSA1", "MHSA2", "MHSA4c", "TransformerLayer", "TransformerDecoder", "DepthSequential"]
RULE = (
    "case = (function, configuration) | (module, dtype) | (composition); each case is compiled "
    "from a fresh function object after torch._dynamo.reset(); non-trivial = the compiled region "
    "was actually handed to the backend (graphs > 0) and forward and backward factors differ"
)
BOUND = {
    "quick": "16 functions x (default + all single-coordinate deviations incl. dtype f32/f64/bf16) with "
    "aot_eager; 17 module configurations x {f32,f64}; all 49 length-2 compositions; single-deviation "
    "spines of length 6; fx.symbolic_trace forward for modules and compositions",
    "thorough": "same with the inductor backend in addition, plus length-3 compositions",
}
EXHAUSTIVE = {"quick": True, "thorough": True}
ASSUMPTIONS = [
    "A5: CPU only; says nothing about CUDA kernels / flash attention",
    "tolerances: float64 1e-12, float32 2e-6 (aot_eager is bit-identical on the pinned tree; inductor "
    "reorders arithmetic), bfloat16 2e-2; scaled by max|reference|",
    "A1: one seeded value draw per case",
]
CHUNK = 2
TOL = {"float64": 1e-12, "float32": 2e-6, "bfloat16": 2e-2, "float16": 4e-3}


def cases(tier: str, seed: int) -> List[Dict[str, Any]]:
    import torch
    from models.ops import OPS, lattice

    out: List[Dict[str, Any]] = []
    backends = ["aot_eager"] + (["inductor"] if tier == "thorough" else [])
    for be in backends:
        for name, op in OPS.items():
            for cfg in lattice(op, 1, fixed={"dtype": "float32"}, restrict={}):
                out.append({"kind": "fn", "op": name, "cfg": cfg, "backend": be, "seed": seed})
            # pairs of hyperparameter deviations at the default shape (e.g. mult x constraint), float32 and float64
            shape_like = {"batch", "n", "m", "k", "fin", "fout", "cin", "cout", "L", "S", "d", "dv", "V", "D", "N", "nd",
                          "right_batched", "pattern", "dtype"}
            restr = {k: [v[0]] for k, v in op.coords.items() if k in shape_like}
            for dt in ("float32", "float64"):
                one = {repr(sorted(c.items(), key=str)) for c in lattice(op, 1, fixed={"dtype": dt}, restrict=restr)}
                for cfg in lattice(op, 2, fixed={"dtype": dt}, restrict=restr):
                    if repr(sorted(cfg.items(), key=str)) not in one:
                        out.append({"kind": "fn", "op": name, "cfg": cfg, "backend": be, "seed": seed})
            # broadcasting patterns x constraints for add (the broadcast size enters the gradient scales)
            if name == "add":
                from models.ops import default_cfg as _dcfg

                for pat in op.coords["pattern"]:
                    for con in op.coords["constraint"]:
                        cfga = dict(_dcfg(op), dtype="float32", pattern=pat, constraint=con)
                        if op.valid(cfga):
                            out.append({"kind": "fn", "op": name, "cfg": cfga, "backend": be, "seed": seed})
            # requires_grad pattern: one float operand frozen at a time (bias-only fine-tuning, frozen embeddings)
            from models.ops import default_cfg

            base = dict(default_cfg(op), dtype="float32")
            for extra in ({}, {"bias": True}, {"weight": True, "bias": True}):
                if any(k not in op.coords for k in extra):
                    continue
                cfgz = dict(base, **extra)
                if not op.valid(cfgz):
                    continue
                try:
                    tz = op.make(cfgz, torch.Generator().manual_seed(0))
                except (RuntimeError, ValueError, KeyError, IndexError):  # the builder cannot make this configuration
                    continue
                fl = [k for k, v in tz.items() if v.is_floating_point() and k != "attn_mask"]
                if len(fl) >= 2:
                    for fz in fl:
                        out.append({"kind": "fn", "op": name, "cfg": cfgz, "backend": be, "seed": seed, "freeze": fz})
            for dt in ("float64", "bfloat16"):
                from models.ops import default_cfg

                out.append({"kind": "fn", "op": name, "cfg": dict(default_cfg(op), dtype=dt), "backend": be, "seed": seed})
                for k in ("constraint", "mult"):
                    if k in op.coords and len(op.coords[k]) > 1:
                        out.append({"kind": "fn", "op": name, "cfg": dict(default_cfg(op), dtype=dt, **{k: op.coords[k][1]}),
                                    "backend": be, "seed": seed})
        for mod in MODULES:
            for dt in ("float32", "float64"):
                out.append({"kind": "module", "module": mod, "dtype": dt, "backend": be, "seed": seed})
        if be == "aot_eager":
            # history on a module compiled with the LIBRARY's compile transform: a hyperparameter attribute is changed
            # after the first call; the next call honours it like eager does
            for which in ("GELU.mult", "SiLU.mult", "Softmax.mult", "Softmax.constraint", "Linear.constraint", "TransformerLayer.mhsa_tau",
                          "TransformerLayer.mlp_tau", "MHSA.is_causal", "Dropout.p",
                          # (frozen parameters: the compiled copy leaves them without gradient, like eager)
                          "Linear.frozen", "MLP.frozen", "TransformerLayer.frozen"):
                out.append({"kind": "attr_history", "which": which, "backend": be, "seed": seed})
        comps = [list(c) for c in itertools.product(UNARY, repeat=2)]
        if tier == "thorough":
            comps += [list(c) for c in itertools.product(UNARY[:5], repeat=3)]
        for i in range(len(SPINE)):
            for alt in UNARY:
                if alt != SPINE[i]:
                    comps.append(SPINE[:i] + [alt] + SPINE[i + 1:])
        comps.append(list(SPINE))
        # compiled regions that RETURN several backward-only-scaled aliases of one intermediate
        for which in ("residual_split", "two_scale_bwd", "split_and_value"):
            for dt in ("float32", "float64"):
                out.append({"kind": "multi_out", "which": which, "backend": be, "dtype": dt, "seed": seed})
        if be == "aot_eager":
            for fn in ("softmax", "softmax_mult", "linear_bias", "linear_unconstrained", "linear_readout", "gelu", "silu_glu", "matmul",
                       "layer_norm", "residual"):
                for dt, n in (("float32", 4096), ("float32", 256), ("bfloat16", 256), ("float64", 4096), ("float16", 1024)):
                    out.append({"kind": "fx_big", "fn": fn, "dtype": dt, "n": n, "backend": be, "seed": seed})
        for c in comps:
            out.append({"kind": "comp", "ops": c, "backend": be, "dtype": "float32" if len(c) % 2 == 0 else "float64", "seed": seed})
    # scheduling only: the expensive compilations (whole modules, long compositions) first, so that the pool
    # does not end on them
    rank = {"attr_history": 0, "module": 0, "comp": 1, "multi_out": 2}
    out.sort(key=lambda c: (rank.get(c["kind"], 3), -len(c.get("ops", []))))
    return out


def _close(a: Any, b: Any, tol: float, floor: float = 0.0) -> bool:
    import torch

    if a is None or b is None:
        return a is None and b is None
    if a.shape != b.shape or a.dtype != b.dtype:
        return False
    a64, b64 = a.detach().to(torch.float64), b.detach().to(torch.float64)
    if not torch.isfinite(b64).all():
        return bool(torch.equal(torch.isfinite(a64), torch.isfinite(b64)))
    sc = max(float(b64.abs().max()), 1e-300, floor) if b64.numel() else 1.0
    return bool(((a64 - b64).abs() <= tol * sc + tol * b64.abs()).all())


def _unary(name: str, d: int, dtype: Any) -> Any:
    import torch
    import unit_scaling.functional as U

    g = torch.Generator().manual_seed(5)
    W = torch.randn(d, d, generator=g, dtype=torch.float64).to(dtype)
    return {
        "gelu": lambda x: U.gelu(x, mult=0.5, constraint=None),
        "silu": lambda x: U.silu(x, constraint="gmean"),
        "softmax": lambda x: U.softmax(x, dim=-1, constraint=None),
        "layer_norm": lambda x: U.layer_norm(x, (d,)),
        "rms_norm": lambda x: U.rms_norm(x, (d,)),
        "dropout0": lambda x: U.dropout(x, p=0.0),
        "linear": lambda x: U.linear(x, W, None, constraint=None),
        "hand_scaled": lambda x: U.scale_fwd(U.scale_bwd(x, 0.5) * 2.0, 0.25),
        "add_one_elem": lambda x: U.add(x, torch.full((1,), 2.5, dtype=x.dtype)),
    }[name]


def _module(name: str, dtype: Any) -> Any:
    import torch
    import unit_scaling as uu

    torch.manual_seed(7)
    g = torch.Generator().manual_seed(9)
    x3 = torch.randn(2, 5, 8, generator=g, dtype=torch.float64).to(dtype)
    ids = torch.randint(0, 11, (2, 5), generator=g)
    mk = {
        "GELU": (lambda: uu.GELU(mult=2.0, constraint=None), (x3,)),
        "SiLU": (lambda: uu.SiLU(), (x3,)),
        "Softmax": (lambda: uu.Softmax(dim=-1, constraint=None), (x3,)),
        "Linear": (lambda: uu.Linear(8, 6, bias=True), (x3,)),
        "LinearReadout": (lambda: uu.LinearReadout(8, 6), (x3,)),
        "Conv1d": (lambda: uu.Conv1d(5, 4, 3, padding=1, constraint=None), (x3,)),
        "LayerNorm": (lambda: uu.LayerNorm(8, elementwise_affine=True), (x3,)),
        "RMSNorm": (lambda: uu.RMSNorm(8, elementwise_affine=True), (x3,)),
        "Embedding": (lambda: uu.Embedding(11, 8), (ids,)),
        "CrossEntropyLoss": (lambda: uu.CrossEntropyLoss(mult=0.5), (x3.flatten(0, 1), torch.randint(0, 8, (10,), generator=g))),
        "MLP": (lambda: uu.MLP(8, 2), (x3,)),
        "MHSA1": (lambda: uu.MHSA(8, 1, is_causal=False), (x3,)),
        "MHSA2": (lambda: uu.MHSA(8, 2, is_causal=False, mult=2.0), (x3,)),
        "MHSA4c": (lambda: uu.MHSA(8, 4, is_causal=True), (x3,)),
        "TransformerLayer": (lambda: uu.TransformerLayer(8, 2, 0.5, 0.7, is_causal=True), (x3,)),
        "TransformerDecoder": (lambda: uu.TransformerDecoder(8, 11, 2, 2), (ids,)),
        "DepthSequential": (lambda: uu.DepthSequential(uu.Linear(8, 8), uu.GELU(), uu.Linear(8, 8, constraint=None)), (x3,)),
    }[name]
    m = mk[0]().to(dtype)
    with torch.no_grad():  # biases are zero-initialised: give them values, or a dropped bias goes unseen
        for n_, p_ in m.named_parameters():
            if "bias" in n_ or not bool((p_ != 0).any()):
                p_.copy_((torch.randn(p_.shape, generator=g, dtype=torch.float64) * 0.5).to(dtype))
    return m, mk[1]


def run_case(case: Dict[str, Any]) -> Dict[str, Any]:
    import copy

    import torch
    import torch._dynamo
    from mc.core import exception_violation
    from models.ops import OPS, tdtype
    from models.probe import diff_names, fit

    viol: List[Dict[str, str]] = []
    be_name = case["backend"]
    graphs = [0]
    inner = torch._dynamo.lookup_backend(be_name)

    def backend(gm: Any, ex: Any) -> Any:
        graphs[0] += 1
        return inner(gm, ex)

    torch._dynamo.reset()

    def run(fn: Any, tensors: List[Any], leaves: List[Any]) -> Any:
        torch.manual_seed(3)
        y = fn(*tensors)
        ys = y if isinstance(y, tuple) else (y,)
        g = torch.Generator().manual_seed(17)
        grads = []
        if leaves and ys[0].requires_grad:
            up = torch.randn(ys[0].shape, generator=g, dtype=torch.float64).to(ys[0].dtype)
            grads = list(torch.autograd.grad(ys[0], leaves, up, allow_unused=True))
        return ys[0].detach(), grads

    if case["kind"] == "fn":
        op = OPS[case["op"]]
        cfg = case["cfg"]
        if not op.valid(cfg):
            return {"skipped": "invalid configuration"}
        dev = [k for k, v in op.coords.items() if cfg.get(k) != v[0] and k != "dtype"]
        ident = f"fn|{be_name}|{op.name}|dtype={cfg['dtype']}|dev={'+'.join(dev) or 'none'}" + (f"|frozen={case['freeze']}" if case.get("freeze") else "")
        tol = TOL[cfg["dtype"]]
        if be_name == "inductor" and ((op.name == "dropout" and cfg["training"] and cfg["p"] > 0)
                                      or (op.name == "scaled_dot_product_attention" and cfg["dropout_p"] > 0)):
            return {"skipped": "inductor draws random numbers from its own generator: not comparable with eager"}
        if op.name == "rms_norm" and cfg["dtype"] == "float64":
            tol = 5e-6  # the RMS statistic is computed in float32 by design
        if op.name == "softmax" and cfg.get("sm_dtype") == "float32":
            tol = max(tol, TOL["float32"])  # softmax(dtype=float32) computes in float32 whatever the input dtype
        try:
            t0 = op.make(cfg, torch.Generator().manual_seed(11))
            diff = [k for k in diff_names(op, t0, cfg) if k != case.get("freeze")]
            names = list(t0)

            def mk() -> Any:
                vals = [t0[k].detach().clone().requires_grad_(k in diff) for k in names]
                return vals, [v for k, v in zip(names, vals) if k in diff]

            def eager_fn(*vals: Any) -> Any:
                return op.unit(dict(zip(names, vals)), cfg)

            try:
                va, la = mk()
                ye, ge = run(eager_fn, va, la)
            except Exception as e_eager:  # noqa
                # eager itself rejects.  Not a compile question if PyTorch's reference rejects the configuration too;
                # if the reference accepts it, the case must not silently drop out of the exploration
                try:
                    op.ref({k: v.detach().clone() for k, v in t0.items()}, cfg)
                except Exception:  # noqa
                    return {"skipped": "eager and the PyTorch reference both reject"}
                return {"violations": [exception_violation(e_eager, ident + "|eager_rejects_a_configuration_the_reference_accepts")], "outcome": "raises"}
            src = "def compiled_fn(*vals):\n    return op.unit(dict(zip(names, vals)), cfg)\n"
            ns: Dict[str, Any] = {"op": op, "names": names, "cfg": cfg}
            exec(compile(src, f"<c20-{abs(hash(repr(cfg))) % 10**8}>", "exec"), ns)  # own code object per case
            cf = torch.compile(ns["compiled_fn"], backend=backend)
            vb, lb = mk()
            yc, gc = run(cf, vb, lb)
            # call history: the cached compiled function is called again with NEW values
            t1 = op.make(cfg, torch.Generator().manual_seed(12))
            if not dev and all(t1[k].shape == t0[k].shape for k in names):
                def mk2() -> Any:
                    vals = [t1[k].detach().clone().requires_grad_(k in diff) for k in names]
                    return vals, [v for k, v in zip(names, vals) if k in diff]

                v1, l1 = mk2()
                ye2, ge2 = run(eager_fn, v1, l1)
                v2, l2 = mk2()
                yc2, gc2 = run(cf, v2, l2)
                if not _close(yc2, ye2, tol) or any(not _close(a, b, tol, floor=3.0) for a, b in zip(gc2, ge2)):
                    viol.append({"key": ident + "|second_call_differs", "msg": f"cfg={cfg}: cached compiled function with new values"})
        except Exception as e:  # noqa
            return {"violations": [exception_violation(e, ident)], "outcome": "raises"}
        what = None
        if not _close(yc, ye, tol):
            what = "output"
        else:
            for k, a, b in zip(diff, gc, ge):
                if not _close(a, b, tol, floor=3.0):
                    what = f"grad[{k}]"
                    break
        if what:
            viol.append({"key": ident + f"|compiled_differs|{what.split('[')[0]}", "msg": f"cfg={cfg}: {what} differs from eager"})
        # plain fx symbolic tracing of the function reproduces the forward value: the traced graph runs the
        # same tensor operations on the same values, so agreement is demanded to 4 ulp of the dtype
        fxs = "untraceable"
        if be_name == "aot_eager":
            from torch import fx

            argn = [f"a{i}" for i in range(len(names))]
            fsrc = (f"class FxWrap(torch.nn.Module):\n    def forward(self, {', '.join(argn)}):\n"
                    f"        return op.unit(dict(zip(names, [{', '.join(argn)}])), cfg)\n")
            ns3: Dict[str, Any] = {"op": op, "names": names, "cfg": cfg, "torch": torch}
            exec(compile(fsrc, f"<c20fx-{abs(hash(repr(cfg))) % 10**8}>", "exec"), ns3)
            try:
                gm = fx.symbolic_trace(ns3["FxWrap"]())
            except Exception:  # noqa - not symbolically traceable (data-dependent control flow): outside the clause
                gm = None
            if gm is not None:
                fxs = "traced"
                try:
                    torch.manual_seed(3)
                    yf = gm(*[t0[k].detach().clone() for k in names])
                    yf = yf[0] if isinstance(yf, tuple) else yf
                    ftol = 4 * torch.finfo(ye.dtype).eps if ye.is_floating_point() else 0.0
                    if op.name == "rms_norm" and cfg["dtype"] == "float64":
                        ftol = 5e-6
                    if not _close(yf.detach(), ye, ftol):
                        viol.append({"key": f"fn|fx|{op.name}|dtype={cfg['dtype']}|dev={'+'.join(dev) or 'none'}|fx_forward_differs",
                                     "msg": f"cfg={cfg}: max err {(yf.detach().double() - ye.double()).abs().max().item():.3e}"})
                except Exception as e:  # noqa
                    viol.append(exception_violation(e, f"fn|fx|{op.name}|traced_graph"))
        return {"violations": viol, "steps": 3, "nontrivial": graphs[0] > 0,
                "outcome": f"{be_name}:graphs={'0' if graphs[0] == 0 else '>0'}:fx={fxs}"}

    if case["kind"] == "module":
        dtype = tdtype(case["dtype"])
        ident = f"module|{be_name}|{case['module']}|dtype={case['dtype']}"
        tol = TOL[case["dtype"]] * (50 if case["module"].startswith(("Transformer", "MHSA", "MLP")) else 1)
        if case["dtype"] == "float64" and case["module"].startswith(("RMSNorm", "Transformer")):
            tol = max(tol, 5e-6)  # RMS statistic in float32 by design
        try:
            m, args = _module(case["module"], dtype)
            m2 = copy.deepcopy(m)

            def call(mod: Any, a: Any) -> Any:
                a = [x.clone().requires_grad_(True) if x.is_floating_point() else x for x in a]
                leaves = [x for x in a if x.is_floating_point()] + list(mod.parameters())
                return run(mod, a, leaves)

            ye, ge = call(m, args)
            cm = torch.compile(m2, backend=backend)
            yc, gc = call(cm, args)
        except Exception as e:  # noqa
            return {"violations": [exception_violation(e, ident)], "outcome": "raises"}
        try:
            args3 = tuple(torch.cat([a, a[:1] * 0.5 if a.is_floating_point() else a[:1]], 0) for a in args)
            if case["module"] != "CrossEntropyLoss":
                ye3, ge3 = call(m, args3)
                yc3, gc3 = call(cm, args3)
                if not _close(yc3, ye3, tol) or any(not _close(a, b, tol, floor=3.0) for a, b in zip(gc3, ge3)):
                    viol.append({"key": ident + "|new_batch_size_differs", "msg": "second call of the compiled module with a larger batch"})
        except Exception as e:  # noqa
            viol.append(exception_violation(e, ident + "|new_batch_size"))
        if not _close(yc, ye, tol):
            viol.append({"key": ident + "|compiled_differs|output", "msg": f"max err {(yc.double() - ye.double()).abs().max().item():.3e}"})
        else:
            for j, (a, b) in enumerate(zip(gc, ge)):
                if not _close(a, b, tol, floor=3.0):
                    viol.append({"key": ident + "|compiled_differs|grad", "msg": f"gradient {j}"})
                    break
        # plain fx symbolic tracing reproduces the forward values
        try:
            from torch import fx

            gm = fx.symbolic_trace(copy.deepcopy(m))
            torch.manual_seed(3)
            yf = gm(*args)
            yf = yf[0] if isinstance(yf, tuple) else yf
            if not _close(yf.detach(), ye, tol):
                viol.append({"key": ident.replace(be_name, "fx") + "|fx_forward_differs", "msg": ""})
        except Exception:  # noqa - not symbolically traceable (einops / data-dependent control flow): outside the clause
            pass
        return {"violations": viol, "steps": 3, "nontrivial": graphs[0] > 0, "outcome": f"{be_name}:module"}

    if case["kind"] == "attr_history":
        import unit_scaling as uu
        from unit_scaling.transforms import compile as uu_compile

        cls, attr = case["which"].split(".")
        ident = f"attr_history|{case['which']}"
        torch.manual_seed(7)
        g = torch.Generator().manual_seed(9)
        x3 = torch.randn(2, 5, 8, generator=g)
        mk = {"GELU": lambda: uu.GELU(mult=1.0, constraint=None), "SiLU": lambda: uu.SiLU(mult=1.0, constraint=None),
              "Softmax": lambda: uu.Softmax(dim=-1, mult=1.0), "Linear": lambda: uu.Linear(8, 6),
              "TransformerLayer": lambda: uu.TransformerLayer(8, 2, 0.5, 0.7, is_causal=True),
              "MHSA": lambda: uu.MHSA(8, 2, is_causal=False), "Dropout": lambda: uu.Dropout(p=0.0)}.get(cls)
        mk = dict({"MLP": lambda: uu.MLP(8, 2)}, **{cls: mk}) [cls] if cls != "MLP" else (lambda: uu.MLP(8, 2))
        if cls == "Linear" and attr == "frozen":
            mk = lambda: uu.Linear(8, 6, bias=True)  # noqa: E731
        newval = {"mult": 0.5, "constraint": None, "mhsa_tau": 0.9, "mlp_tau": 0.2, "is_causal": True, "p": 0.0, "frozen": None}[attr]
        if case["which"] == "Softmax.constraint":
            mk = lambda: uu.Softmax(dim=-1, mult=0.5)  # noqa: E731
        if case["which"] == "Linear.constraint":
            newval = "to_grad_input_scale"
        try:
            m = mk()
            if attr == "frozen":
                ps_ = list(m.parameters())
                for p_ in ps_[: max(1, len(ps_) // 2)]:
                    p_.requires_grad_(False)
                with torch.no_grad():
                    for p_ in ps_:
                        if not bool((p_ != 0).any()):
                            p_.normal_()
            cm = uu_compile(m)
            if attr == "frozen":
                flags = [(a.requires_grad, b.requires_grad) for a, b in zip(m.parameters(), cm.parameters())]
                if any(a != b for a, b in flags):
                    viol.append({"key": ident + "|requires_grad_differs_in_compiled_copy", "msg": f"(eager, compiled) = {flags}"})

            def call(mod: Any) -> Any:
                a = x3.clone().requires_grad_(True)
                leaves = [a] + [p_ for p_ in mod.parameters() if p_.requires_grad]
                return run(mod, [a], leaves)

            y0e, g0e = call(m)
            y0c, g0c = call(cm)
            for mod in (m, cm):
                if attr != "frozen":
                    setattr(mod, attr, newval)
            y1e, g1e = call(m)
            y1c, g1c = call(cm)
        except Exception as e:  # noqa
            return {"violations": [exception_violation(e, ident)], "outcome": "raises"}
        tol = 2e-4  # (inductor behind the library transform)
        for tag, (ye, ge, yc, gc) in {"first_call": (y0e, g0e, y0c, g0c), "after_attribute_change": (y1e, g1e, y1c, g1c)}.items():
            if not _close(yc, ye, tol) or any(not _close(a, b, tol, floor=3.0) for a, b in zip(gc, ge)):
                viol.append({"key": ident + f"|compiled_differs|{tag}", "msg": f"{attr} -> {newval!r}"})
        changed = not _close(y1e, y0e, 1e-6) or any(not _close(a, b, 1e-6) for a, b in zip(g1e, g0e))
        return {"violations": viol, "steps": 4, "nontrivial": changed or attr in ("p", "frozen"), "outcome": "attr_history"}

    if case["kind"] == "fx_big":
        # plain fx tracing at sizes where forward and backward factors are far apart (fan-in / softmax width 4096)
        import unit_scaling.functional as U
        from torch import fx

        dtype = tdtype(case["dtype"])
        n = case["n"]
        ident = f"fx_big|{case['fn']}|dtype={case['dtype']}"
        g = torch.Generator().manual_seed(5)
        x0 = torch.randn(3, n, generator=g, dtype=torch.float64).to(dtype)
        W = (torch.randn(7, n, generator=g, dtype=torch.float64)).to(dtype)
        b = torch.randn(7, generator=g, dtype=torch.float64).to(dtype)
        fn = {
            "softmax": lambda x: U.softmax(x, dim=-1),
            "softmax_mult": lambda x: U.softmax(x, dim=-1, mult=0.5, constraint=None),
            "linear_bias": lambda x: U.linear(x, W, b),
            "linear_unconstrained": lambda x: U.linear(x, W, None, constraint=None),
            "linear_readout": lambda x: U.linear_readout(x, W, b),
            "gelu": lambda x: U.gelu(x),
            "silu_glu": lambda x: U.silu_glu(x, x * 0.5),
            "matmul": lambda x: U.matmul(x, W.t()),
            "layer_norm": lambda x: U.layer_norm(x, (n,)),
            "residual": lambda x: U.residual_add(*reversed(U.residual_split(x, 0.3))),
        }[case["fn"]]

        class WrapBig(torch.nn.Module):
            def forward(self, x: Any) -> Any:
                return fn(x)

        try:
            ye = fn(x0)
        except Exception as e:  # noqa
            return {"violations": [exception_violation(e, ident)], "outcome": "raises"}
        try:
            gm = fx.symbolic_trace(WrapBig())
        except Exception:  # noqa - not symbolically traceable: outside the clause
            return {"violations": [], "steps": 1, "nontrivial": False, "outcome": "fx_big:untraceable"}
        yf = gm(x0)
        if not _close(yf, ye, 4 * torch.finfo(dtype).eps):
            viol.append({"key": ident + "|fx_forward_differs", "msg": f"n={n}: max err {(yf.double() - ye.double()).abs().max().item():.3e} "
                         f"(max |y| {ye.double().abs().max().item():.3e})"})
        return {"violations": viol, "steps": 2, "nontrivial": True, "outcome": "fx_big:traced"}

    if case["kind"] == "multi_out":
        import unit_scaling.functional as U
        from unit_scaling.scale import scale_bwd

        dtype = tdtype(case["dtype"])
        ident = f"multi_out|{be_name}|{case['which']}|dtype={case['dtype']}"
        fns = {
            "residual_split": lambda x: U.residual_split(torch.tanh(x), 0.5),
            "two_scale_bwd": lambda x: (scale_bwd(x * 2, 3.0), scale_bwd(x * 2, 5.0)),
            "split_and_value": lambda x: (U.residual_split(U.gelu(x), 0.25)[0], U.gelu(x)),
        }
        fn = fns[case["which"]]
        src = "def compiled_multi(x):\n    return fn(x)\n"
        ns3: Dict[str, Any] = {"fn": fn}
        exec(compile(src, f"<c20m-{case['which']}>", "exec"), ns3)
        x0 = torch.randn(3, 5, generator=torch.Generator().manual_seed(4), dtype=torch.float64).to(dtype)

        def both(f: Any) -> Any:
            x = x0.clone().requires_grad_(True)
            a, b = f(x)
            (gx,) = torch.autograd.grad((a * 1.5).sum() + (b * b).sum(), x)
            return a.detach(), b.detach(), gx

        try:
            ea, eb, eg = both(fn)
            ca, cb, cg = both(torch.compile(ns3["compiled_multi"], backend=backend))
        except Exception as e:  # noqa
            return {"violations": [exception_violation(e, ident)], "outcome": "raises"}
        tol = TOL[case["dtype"]]
        if not (_close(ca, ea, tol) and _close(cb, eb, tol)):
            viol.append({"key": ident + "|compiled_differs|output", "msg": ""})
        elif not _close(cg, eg, tol, floor=1.0):
            viol.append({"key": ident + "|compiled_differs|grad", "msg": f"eager grad[0,0]={eg[0, 0].item()!r} compiled {cg[0, 0].item()!r}"})
        return {"violations": viol, "steps": 2, "nontrivial": graphs[0] > 0, "outcome": f"{be_name}:multi_out"}

    # ---- compositions
    dtype = tdtype(case["dtype"])
    d = 8
    ident = f"comp|{be_name}|len={len(case['ops'])}|dtype={case['dtype']}|ops={'+'.join(sorted(set(case['ops'])))}"
    tol = TOL[case["dtype"]] * 20
    if case["dtype"] == "float64" and "rms_norm" in case["ops"]:
        tol = max(tol, 5e-6)  # RMS statistic in float32 by design
    fns = [_unary(n, d, dtype) for n in case["ops"]]

    def eager(x: Any) -> Any:
        for f in fns:
            x = f(x)
        return x

    src = "def compiled_comp(x):\n" + "".join(f"    x = fns[{i}](x)\n" for i in range(len(fns))) + "    return x\n"
    ns2: Dict[str, Any] = {"fns": fns}
    exec(compile(src, f"<c20c-{abs(hash(repr(case['ops']))) % 10**8}>", "exec"), ns2)
    x0 = torch.randn(3, 4, d, generator=torch.Generator().manual_seed(2), dtype=torch.float64).to(dtype)
    try:
        xa = x0.clone().requires_grad_(True)
        ye, ge = run(eager, [xa], [xa])
        xb = x0.clone().requires_grad_(True)
        yc, gc = run(torch.compile(ns2["compiled_comp"], backend=backend), [xb], [xb])
    except Exception as e:  # noqa
        return {"violations": [exception_violation(e, ident)], "outcome": "raises"}
    if not _close(yc, ye, tol):
        viol.append({"key": ident + "|compiled_differs|output", "msg": f"{case['ops']}"})
    elif not _close(gc[0], ge[0], tol, floor=3.0):
        viol.append({"key": ident + "|compiled_differs|grad", "msg": f"{case['ops']}"})
    # fx forward
    try:
        from torch import fx

        class Wrap(torch.nn.Module):
            def forward(self, x: Any) -> Any:
                return eager(x)

        yf = fx.symbolic_trace(Wrap())(x0)
        if not _close(yf.detach(), ye, tol):
            viol.append({"key": ident.replace(be_name, "fx") + "|fx_forward_differs", "msg": f"{case['ops']}"})
    except Exception:  # noqa
        pass
    # the library's leaf-wrapping tracer (analyse_module) reproduces the gradients
    try:
        import unit_scaling.utils as uutils

        class Wrap2(torch.nn.Module):
            def forward(self, x: Any) -> Any:
                return eager(x)

        xg = x0.clone().requires_grad_(True)
        g = torch.Generator().manual_seed(17)
        up = torch.randn(ye.shape, generator=g, dtype=torch.float64).to(ye.dtype)
        torch.manual_seed(3)
        uutils.analyse_module(Wrap2(), (xg,), up, syntax_highlight=False)
        if xg.grad is None or not _close(xg.grad, ge[0], tol, floor=3.0):
            viol.append({"key": ident.replace(be_name, "leaf_tracer") + "|leaf_tracer_gradient_differs", "msg": f"{case['ops']}"})
    except Exception as e:  # noqa
        viol.append(exception_violation(e, ident.replace(be_name, "leaf_tracer")))
    return {"violations": viol, "steps": 4, "nontrivial": graphs[0] > 0, "outcome": f"{be_name}:comp"}
