"""./vcheck <ID> [--tier quick|thorough] [--replay path] [--nproc N]"""
import argparse
import os
import subprocess
import sys

from mc import core


def main() -> int:
    ap = argparse.ArgumentParser()
    ap.add_argument("prop")
    ap.add_argument("--tier", default=None, choices=["quick", "thorough"])
    ap.add_argument("--replay", default=None)
    ap.add_argument("--nproc", type=int, default=None)
    a = ap.parse_args()
    tier = a.tier or os.environ.get("VERIF_TIER") or "quick"
    if tier not in ("quick", "thorough"):
        tier = "quick"
    try:
        seed = int(os.environ.get("VERIF_SEED", "0"))
    except ValueError:
        seed = 0
    prop = a.prop.upper()
    rc = core.run_check(f"checks.{prop.lower()}", tier, seed, a.replay, a.nproc)
    if a.replay is None and rc in (0, 1):
        ev = os.path.join(core.evidence_dir(), f"{prop}.json")
        val = os.path.join(core.VERIF, "tools", "validate_evidence.py")
        try:
            p = subprocess.run(["python3-vt", val, ev], capture_output=True, text=True)
            if p.returncode != 0:
                print("HARNESS-ERROR evidence file invalid:", p.stdout, p.stderr)
                return 2
        except FileNotFoundError:
            pass
    return rc


if __name__ == "__main__":
    sys.exit(main())
