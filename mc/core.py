"""Common driver for every check: bounded exhaustive exploration of the real code.

A check module (checks/cNN.py) provides

    PROPERTY = "C01"
    def cases(tier, seed) -> list[dict]      # the complete, ordered case list (JSON-able)
    def run_case(case) -> dict               # executes ONE case on the implementation
    ASSUMPTIONS = [...]; RULE = "..."        # text for the evidence file

`run_case` returns a dict with

    violations : list of {"key": str, "msg": str}   (empty = property held on this case)
    nontrivial : bool        the oracle compared something non-degenerate
    outcome    : str         observable outcome class (for the distinct-outcome count)
    steps      : int         number of transitions executed (ops applied / comparisons made)
    skipped    : str|None    reason the case is outside the property (reference rejects it)

The driver shards the case list over spawned worker processes, re-executes every failing
case from scratch in a fresh process (only reproduced failures are reported), matches
failures against /verif/known_findings.json, writes replay artefacts and the evidence
file, prints VIOLATION / KNOWN-FINDING lines and returns the exit status.
"""

from __future__ import annotations

import hashlib
import importlib
import json
import multiprocessing as mp
import os
import re
import sys
import time
import traceback
from typing import Any, Dict, List, Optional

VERIF = os.path.dirname(os.path.dirname(os.path.abspath(__file__)))
REPO = os.environ.get("VERIF_REPO", "/repo")
GUARD = "UNIT_SCALING_VERIF"


# --------------------------------------------------------------------------- workers
def _worker_init(repo: str, verif: str) -> None:
    os.environ.setdefault("PYTHONHASHSEED", "0")
    os.environ[GUARD] = "1"
    for p in (verif, repo):
        if p in sys.path:
            sys.path.remove(p)
    sys.path.insert(0, verif)
    sys.path.insert(0, repo)
    import warnings

    warnings.filterwarnings("ignore")
    import logging

    logging.disable(logging.WARNING)
    import torch

    torch.set_num_threads(1)
    try:
        torch.set_num_interop_threads(1)
    except RuntimeError:
        pass
    import unit_scaling

    assert os.path.abspath(unit_scaling.__file__).startswith(
        os.path.abspath(repo) + os.sep
    ), f"unit_scaling imported from {unit_scaling.__file__}, not {repo}"


def _is_library_frame(tb: BaseException) -> bool:
    """True if the innermost non-torch frame of the exception is in the library."""
    frames = traceback.extract_tb(tb.__traceback__)
    lib = os.path.join(os.path.abspath(REPO), "unit_scaling") + os.sep
    for fr in reversed(frames):
        fn = os.path.abspath(fr.filename)
        if "/site-packages/" in fn or fn.startswith("<"):
            continue
        return fn.startswith(lib)
    return False


def _run_one(arg: Any) -> Dict[str, Any]:
    modname, case = arg
    mod = importlib.import_module(modname)
    try:
        res = mod.run_case(case)
    except Exception as e:
        if _is_library_frame(e):
            # an exception raised INSIDE the library that the check did not anticipate: a violation of the case's
            # clause ("never raises on valid input"), reported like any other and reproduced in a fresh process
            kind = case.get("kind", "case") if isinstance(case, dict) else "case"
            v = exception_violation(e, f"uncaught|{kind}")
            v["msg"] += "\n" + "".join(traceback.format_exception(type(e), e, e.__traceback__))[-1500:]
            return {"case": case, "violations": [v], "nontrivial": True, "outcome": "raises", "steps": 1, "skipped": None}
        # anything else is a harness error: never a VIOLATION
        return {
            "case": case,
            "harness_error": "".join(
                traceback.format_exception(type(e), e, e.__traceback__)
            )[-4000:],
        }
    res.setdefault("violations", [])
    res.setdefault("nontrivial", True)
    res.setdefault("outcome", "ok")
    res.setdefault("steps", 1)
    res.setdefault("skipped", None)
    res["case"] = case
    return res


def pool(nproc: int, maxtasks: Optional[int] = None) -> Any:
    ctx = mp.get_context("spawn")
    return ctx.Pool(
        nproc, initializer=_worker_init, initargs=(REPO, VERIF), maxtasksperchild=maxtasks
    )


# --------------------------------------------------------------------------- helpers
def case_hash(case: Any) -> str:
    return hashlib.sha256(json.dumps(case, sort_keys=True, default=str).encode()).hexdigest()[
        :16
    ]


def derive_seed(seed: int, *parts: Any) -> int:
    h = hashlib.sha256(("|".join([str(seed)] + [str(p) for p in parts])).encode()).digest()
    return int.from_bytes(h[:8], "little") & 0x7FFFFFFFFFFFFFFF


def load_known(prop: str) -> List[Dict[str, Any]]:
    path = os.path.join(VERIF, "known_findings.json")
    if not os.path.exists(path):
        return []
    with open(path) as f:
        data = json.load(f)
    return [e for e in data.get("findings", []) if e.get("property") == prop]


def match_known(known: List[Dict[str, Any]], key: str) -> Optional[Dict[str, Any]]:
    for e in known:
        if e.get("status") != "known":
            continue  # "fixed" entries suppress nothing
        if re.search(e["match"], key):
            return e
    return None


def exception_violation(e: BaseException, what: str) -> Dict[str, str]:
    """Turn an exception raised while calling the library into a violation record."""
    frames = traceback.extract_tb(e.__traceback__)
    where = ""
    lib = os.path.join(os.path.abspath(REPO), "unit_scaling") + os.sep
    for fr in reversed(frames):
        fn = os.path.abspath(fr.filename)
        if fn.startswith(lib):
            where = f"{fn[len(lib):]}:{fr.name}"
            break
    msg = f"{type(e).__name__}: {str(e)[:300]}"
    return {"key": f"{what}|raises={type(e).__name__}@{where}", "msg": msg}


def evidence_dir() -> str:
    """/verif/evidence, unless a development run against a scratch copy of the repository
    (tools/trymut.sh, tools/seeded_matrix.sh) redirects it so that committed evidence only ever
    comes from runs against /repo itself"""
    return os.environ.get("VERIF_EVIDENCE_DIR") or os.path.join(VERIF, "evidence")


# --------------------------------------------------------------------------- driver
def run_check(
    modname: str,
    tier: str,
    seed: int,
    replay: Optional[str] = None,
    nproc: Optional[int] = None,
) -> int:
    t0 = time.time()
    _worker_init(REPO, VERIF)
    mod = importlib.import_module(modname)
    prop = mod.PROPERTY
    nproc = nproc or int(os.environ.get("VERIF_NPROC", "0")) or min(16, os.cpu_count() or 1)
    known = load_known(prop)

    if replay:
        with open(replay) as f:
            art = json.load(f)
        res = _run_one((modname, art["case"]))
        if "harness_error" in res:
            print(res["harness_error"])
            return 2
        if res["violations"]:
            for v in res["violations"]:
                print(f"REPLAY-FAIL property={prop} key={v['key']} :: {v['msg']}")
            print(f"VIOLATION property={prop} replay={replay}")
            return 1
        print(f"REPLAY-OK property={prop} (no violation on this tree)")
        return 0

    cases = mod.cases(tier, seed)
    if hasattr(mod, "prepare"):
        mod.prepare(tier, seed)
    n = len(cases)
    chunk = max(1, min(64, n // (nproc * 8) or 1))
    chunk = getattr(mod, "CHUNK", chunk)
    results: List[Dict[str, Any]] = []
    maxtasks = getattr(mod, "MAXTASKS", None)
    # cases marked {"fresh": True} probe process-global state of the library (caches keyed by value,
    # shared default objects): each of them runs in a brand-new interpreter, so its outcome does not
    # depend on which other cases the worker happened to execute before it
    fresh_idx = [i for i, c in enumerate(cases) if isinstance(c, dict) and c.get("fresh")]
    normal_idx = [i for i, c in enumerate(cases) if not (isinstance(c, dict) and c.get("fresh"))]
    slots: List[Any] = [None] * n
    if nproc == 1 or n <= 2:
        for i in normal_idx:
            slots[i] = _run_one((modname, cases[i]))
    elif normal_idx:
        with pool(min(nproc, len(normal_idx)), maxtasks) as p:
            for i, r in zip(normal_idx, p.imap(_run_one, [(modname, cases[i]) for i in normal_idx], chunksize=chunk)):
                slots[i] = r
    if fresh_idx:
        with pool(min(nproc, len(fresh_idx)), 1) as p:
            for i, r in zip(fresh_idx, p.imap(_run_one, [(modname, cases[i]) for i in fresh_idx], chunksize=1)):
                slots[i] = r
    results = slots

    harness_errors = [r for r in results if "harness_error" in r]
    if harness_errors:
        print(f"HARNESS-ERROR property={prop} cases={len(harness_errors)}")
        print(json.dumps(harness_errors[0]["case"], default=str)[:2000])
        print(harness_errors[0]["harness_error"])
        return 2

    failing = [r for r in results if r["violations"]]
    # ---- reproduce each failing case from scratch in a fresh process
    reproduced: List[Dict[str, Any]] = []
    flaky: List[Dict[str, Any]] = []
    if failing:
        # one representative per distinct key-set is enough to report; cap work
        by_keys: Dict[str, Dict[str, Any]] = {}
        for r in failing:
            ks = "&".join(sorted(v["key"] for v in r["violations"]))
            by_keys.setdefault(ks, r)
        reps = list(by_keys.values())[:200]
        with pool(min(nproc, len(reps)), 1) as p:
            again = p.map(_run_one, [(modname, r["case"]) for r in reps], chunksize=1)
        for r0, r1 in zip(reps, again):
            if "harness_error" in r1:
                print(r1["harness_error"])
                return 2
            k0 = sorted(v["key"] for v in r0["violations"])
            k1 = sorted(v["key"] for v in r1["violations"])
            if k0 == k1:
                reproduced.append(r0)
            else:
                flaky.append({"case": r0["case"], "first": k0, "second": k1})
    if flaky:
        # a failure that does not reproduce in a fresh process is nondeterminism the harness (or
        # process-global library state) did not pin down: never reported as a VIOLATION
        print(f"NOT-REPRODUCED property={prop}: {len(flaky)} failing case(s) did not reproduce in a fresh process")
        print(json.dumps(flaky[0], default=str)[:1500])
        repro_keys = {case_hash(r["case"]) for r in reproduced}
        failing = [r for r in failing if case_hash(r["case"]) in repro_keys or
                   "&".join(sorted(v["key"] for v in r["violations"])) in
                   {"&".join(sorted(v["key"] for v in q["violations"])) for q in reproduced}]
        if not failing:
            return 2
    # ---- classify
    n_viol = 0
    known_hits: Dict[str, int] = {}
    new_viol: Dict[str, Dict[str, Any]] = {}
    for r in failing:
        for v in r["violations"]:
            e = match_known(known, v["key"])
            if e is not None:
                known_hits[e["id"]] = known_hits.get(e["id"], 0) + 1
            else:
                n_viol += 1
                new_viol.setdefault(v["key"], {"case": r["case"], "v": v})
    for e in known:
        if e.get("status") == "known" and e["id"] in known_hits:
            print(
                f"KNOWN-FINDING: property={prop} {e['id']} {e['what_fails']}"
                f" (cases={known_hits[e['id']]})"
            )
    rdir = os.path.join(VERIF, "replays", prop)
    shown = 0
    for key, item in new_viol.items():
        os.makedirs(rdir, exist_ok=True)
        path = os.path.join(rdir, case_hash([key, item["case"]]) + ".json")
        with open(path, "w") as f:
            json.dump(
                {
                    "property": prop,
                    "check": modname,
                    "tier": tier,
                    "seed": seed,
                    "key": key,
                    "msg": item["v"]["msg"],
                    "case": item["case"],
                },
                f,
                indent=1,
                default=str,
            )
        if shown < 25:
            print(f"VIOLATION property={prop} replay={path}")
            print(f"  key={key}\n  {item['v']['msg'][:600]}")
        shown += 1
    if shown > 25:
        print(f"... {shown - 25} further distinct violation keys (replays written)")

    # ---- evidence
    executed = [r for r in results if not r["skipped"]]
    skipped = [r for r in results if r["skipped"]]
    nontriv = {case_hash(r["case"]) for r in executed if r["nontrivial"]}
    outcomes: Dict[str, int] = {}
    for r in executed:
        outcomes[r["outcome"]] = outcomes.get(r["outcome"], 0) + 1
    steps = sum(int(r["steps"]) for r in executed)
    extra = {}
    if hasattr(mod, "summarise"):
        extra = mod.summarise(results, tier, seed) or {}
    samples = [r["case"] for r in executed[:2]] + [r["case"] for r in executed[-1:]]
    mid = executed[len(executed) // 2 : len(executed) // 2 + 1]
    samples += [r["case"] for r in mid]
    skip_reasons: Dict[str, int] = {}
    for r in skipped:
        skip_reasons[r["skipped"]] = skip_reasons.get(r["skipped"], 0) + 1
    cov = {
        "states": sum(int(r.get("n_states", 1)) for r in executed),
        "cases": len({case_hash(r["case"]) for r in executed}),
        "transitions": steps,
        "traces_validated_against_impl": len(executed),
        "evaluations": len(results),
        "distinct_nontrivial": len(nontriv),
        "rule": getattr(mod, "RULE", ""),
        "samples": samples,
        "exhaustive": bool(getattr(mod, "EXHAUSTIVE", {}).get(tier, False)),
        "bound": getattr(mod, "BOUND", {}).get(tier, ""),
        "distinct_outcomes": len(outcomes),
        "outcome_histogram": dict(sorted(outcomes.items(), key=lambda kv: -kv[1])[:40]),
        "skipped_outside_property": len(skipped),
        "skip_reasons": dict(sorted(skip_reasons.items(), key=lambda kv: -kv[1])[:20]),
        "known_findings_hit": known_hits,
        "workers": nproc,
    }
    cov.update(extra)
    ev = {
        "property_id": prop,
        "tier": tier,
        "seed": int(seed),
        "level": "model_checking",
        "coverage": cov,
        "assumptions": list(getattr(mod, "ASSUMPTIONS", [])),
        "wall_s": round(time.time() - t0, 2),
        "violations": n_viol,
    }
    evdir = evidence_dir()
    os.makedirs(evdir, exist_ok=True)
    with open(os.path.join(evdir, f"{prop}.json"), "w") as f:
        json.dump(ev, f, indent=1, default=str)
    print(
        f"{prop} tier={tier} seed={seed} cases={len(results)} executed={len(executed)}"
        f" skipped={len(skipped)} nontrivial={len(nontriv)} transitions={steps}"
        f" outcomes={len(outcomes)} violations={n_viol} known={sum(known_hits.values())}"
        f" wall={ev['wall_s']}s"
    )
    return 1 if n_viol else 0
