"""Independent model of a floating-point format (E exponent bits, M mantissa bits) with
subnormals and no specials, as the C13/C14 statements describe it:

    emin = 1 - 2^(E-1), emax = 2^(E-1) - 1
    subnormals  +-k * 2^(emin-M),        k = 0 .. 2^M - 1
    normals     +-(2^M + k) * 2^(e-M),   e = emin .. emax, k = 0 .. 2^M - 1

Everything is computed in float64 / Python ints, where all quantities involved (float32
inputs, powers of two, multiples of the spacing) are exact.  Nothing is imported from
unit_scaling.
"""

from __future__ import annotations

from fractions import Fraction
from typing import List, Tuple

import torch


def emin(E: int) -> int:
    return 1 - 2 ** (E - 1)


def emax(E: int) -> int:
    return 2 ** (E - 1) - 1


def max_value(E: int, M: int) -> float:
    return float(Fraction(2) ** emax(E) * (2 - Fraction(1, 2**M)))


def min_normal(E: int) -> float:
    return float(Fraction(2) ** emin(E))


def min_subnormal(E: int, M: int) -> float:
    return float(Fraction(2) ** (emin(E) - M))


def value_set(E: int, M: int) -> torch.Tensor:
    """All non-negative representable values, ascending, float64 (exact)."""
    vals: List[float] = []
    sub = Fraction(2) ** (emin(E) - M)
    for k in range(2**M):
        vals.append(float(k * sub))
    for e in range(emin(E), emax(E) + 1):
        sp = Fraction(2) ** (e - M)
        for k in range(2**M):
            vals.append(float((2**M + k) * sp))
    t = torch.tensor(vals, dtype=torch.float64)
    assert bool((t[1:] > t[:-1]).all())
    return t


def spacing(absx: torch.Tensor, E: int, M: int) -> torch.Tensor:
    """Local spacing of the format grid at |x| (float64, exact)."""
    _, ex = torch.frexp(absx)  # absx = m * 2^ex, m in [0.5, 1)
    e = (ex - 1).clamp(min=emin(E), max=emax(E))
    e = torch.where(absx == 0, torch.full_like(e, emin(E)), e)
    return torch.ldexp(torch.ones_like(absx), e - M)


def neighbours(x: torch.Tensor, E: int, M: int) -> Tuple[torch.Tensor, torch.Tensor, torch.Tensor]:
    """(lower, upper, spacing) magnitudes of the two representable neighbours of the
    range-clamped |x|; lower == upper-spacing, lower <= |x|clamped < upper, except at the
    top of the range where upper is clamped to max."""
    x = x.to(torch.float64)
    mx = max_value(E, M)
    a = x.abs().clamp(max=mx)
    sp = spacing(a, E, M)
    lower = torch.floor(a / sp) * sp
    upper = torch.minimum(lower + sp, torch.full_like(lower, mx))
    return lower, upper, sp


def is_representable(q: torch.Tensor, E: int, M: int) -> torch.Tensor:
    q = q.to(torch.float64)
    a = q.abs()
    sp = spacing(a, E, M)
    k = a / sp
    return (k == torch.floor(k)) & (a <= max_value(E, M))
