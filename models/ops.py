"""Table of the public unit-scaled functions: configuration lattices, input builders, the
unit-scaled call and the PyTorch reference call (with the documented `mult` temperature).

Nothing here reads a scale formula from the library; the reference side is plain torch.
Configurations are JSON-able dicts; coordinate domains are ordered simplest/default first.
"""

from __future__ import annotations

import itertools
from typing import Any, Callable, Dict, List, Optional, Tuple

BATCHES = [[2], [], [2, 3], [1, 2, 3]]
DT = ["float64", "float32", "bfloat16", "float16"]
BIN = ["to_output_scale", None, "gmean", "hmean", "amean", "to_grad_input_scale", ""]
TER = ["to_output_scale", None, "gmean", "hmean", "amean", "to_left_grad_scale", "to_right_grad_scale", ""]
MULTS = [1.0, 0.25, 3.0]


def tdtype(name: str) -> Any:
    import torch

    return getattr(torch, name)


class Op:
    name: str = ""
    coords: Dict[str, List[Any]] = {}
    exact_one = False  # forward scalar must be exactly 1 (losses, norms, embedding)
    loss = False
    unsupported: List[Dict[str, Any]] = []  # kwargs that must be rejected

    # -- to override
    def make(self, c: Dict[str, Any], g: Any) -> Dict[str, Any]:
        raise NotImplementedError

    def unit(self, t: Dict[str, Any], c: Dict[str, Any], **extra: Any) -> Any:
        raise NotImplementedError

    def ref(self, t: Dict[str, Any], c: Dict[str, Any], sum_reduce: bool = False) -> Any:
        raise NotImplementedError

    def constrained(self, c: Dict[str, Any]) -> List[str]:
        """names of inputs whose gradient scale takes part in the constraint"""
        return []

    def with_constraint(self, c: Dict[str, Any], name: Any) -> Dict[str, Any]:
        d = dict(c)
        d["constraint"] = name
        return d

    def valid(self, c: Dict[str, Any]) -> bool:
        return True


def _randn(g: Any, shape: List[int], dtype: str) -> Any:
    import torch

    x = torch.randn(shape, dtype=torch.float64, generator=g)
    return x.to(tdtype(dtype))


# the documented positional order of the public functional API (pinned tree): the reference for positional calls
SIGNATURES = {
    "gelu": ["input", "mult", "constraint", "approximate"],
    "silu": ["input", "mult", "constraint", "inplace"],
    "silu_glu": ["input", "gate", "mult"],
    "softmax": ["input", "dim", "dtype", "constraint", "mult"],
    "dropout": ["input", "p", "training", "inplace"],
    "matmul": ["left", "right", "constraint"],
    "linear": ["input", "weight", "bias", "constraint", "scale_power"],
    "linear_readout": ["input", "weight", "bias", "constraint"],
    "conv1d": ["input", "weight", "bias", "stride", "padding", "dilation", "groups", "constraint", "scale_power"],
    "layer_norm": ["input", "normalized_shape", "weight", "bias", "eps"],
    "rms_norm": ["input", "normalized_shape", "weight", "eps"],
    "add": ["input", "other", "constraint", "alpha", "out"],
    "residual_split": ["input", "tau"],
    "residual_add": ["residual", "skip", "tau"],
    "residual_apply": ["fn", "input", "tau"],
    "embedding": ["input", "weight", "padding_idx", "max_norm", "norm_type", "scale_grad_by_freq", "sparse"],
    "scaled_dot_product_attention": ["query", "key", "value", "attn_mask", "dropout_p", "is_causal", "mult"],
    "cross_entropy": ["input", "target", "weight", "size_average", "ignore_index", "reduce", "reduction", "label_smoothing", "mult"],
    "mse_loss": ["input", "target", "size_average", "reduce", "reduction"],
}
ARGFORM: List[Any] = [None]  # None | "positional" | "keyword" | "numforms" (set by probe_env)


class _FormProxy:
    """unit_scaling.functional seen through an equivalent but different CALL FORM: every argument passed
    positionally, every argument passed by keyword, or integral floats given as ints (PEP 484: an int is acceptable where a float is declared)
    and lists of ints as tuples.  The callee must not be able to tell the difference."""

    def __init__(self, mod: Any, form: str) -> None:
        self._mod, self._form = mod, form

    def __getattr__(self, name: str) -> Any:
        import inspect

        fn = getattr(self._mod, name)
        form = self._form
        if not callable(fn):
            return fn

        def conv(v: Any) -> Any:
            if isinstance(v, bool) or v is None:
                return v
            if isinstance(v, float) and v == int(v) and abs(v) < 2**31:
                return int(v)
            if isinstance(v, list) and all(isinstance(e, int) for e in v):
                return tuple(v)
            return v  # (a tuple is NOT turned into a list: `normalized_shape: Tuple[int, ...]` documents a tuple)

        def call(*a: Any, **k: Any) -> Any:
            sig = inspect.signature(fn)
            ba = sig.bind(*a, **k)
            if form == "numforms":
                return fn(*[conv(v) for v in a], **{kk: conv(v) for kk, v in k.items()})
            names = SIGNATURES.get(name) or list(sig.parameters)
            if form == "keyword":
                return fn(**dict(ba.arguments))
            # positional: everything up to the last explicitly given parameter, defaults filled in
            given = [n for n in names if n in ba.arguments]
            last = max(names.index(n) for n in given)
            ba.apply_defaults()
            return fn(*[ba.arguments[n] for n in names[: last + 1]])

        return call


def _U() -> Any:
    import unit_scaling.functional as U

    return _FormProxy(U, ARGFORM[0]) if ARGFORM[0] else U


# ----------------------------------------------------------------------------- elementwise
class Gelu(Op):
    name = "gelu"
    coords = {"batch": BATCHES, "n": [5, 1, 8, 3], "mult": MULTS, "approximate": ["none", "tanh"],
              "constraint": BIN, "dtype": DT}

    def make(self, c, g):
        return {"input": _randn(g, c["batch"] + [c["n"]], c["dtype"])}

    def unit(self, t, c, **extra):
        return _U().gelu(t["input"], mult=c["mult"], constraint=c["constraint"],
                         approximate=c["approximate"], **extra)

    def ref(self, t, c, sum_reduce=False):
        import torch.nn.functional as F

        m = c["mult"]
        return F.gelu(t["input"] * m, approximate=c["approximate"]) / m

    def constrained(self, c):
        return ["input"]


class Silu(Op):
    name = "silu"
    coords = {"batch": BATCHES, "n": [5, 1, 8, 3], "mult": MULTS, "constraint": BIN, "dtype": DT}
    unsupported = [{"inplace": True}]

    def make(self, c, g):
        return {"input": _randn(g, c["batch"] + [c["n"]], c["dtype"])}

    def unit(self, t, c, **extra):
        return _U().silu(t["input"], mult=c["mult"], constraint=c["constraint"], **extra)

    def ref(self, t, c, sum_reduce=False):
        import torch

        x = t["input"]
        return x * torch.sigmoid(x * c["mult"])

    def constrained(self, c):
        return ["input"]


class SiluGlu(Op):
    name = "silu_glu"
    coords = {"batch": BATCHES, "n": [5, 1, 8, 3], "mult": MULTS, "dtype": DT}

    def make(self, c, g):
        sh = c["batch"] + [c["n"]]
        return {"input": _randn(g, sh, c["dtype"]), "gate": _randn(g, sh, c["dtype"])}

    def unit(self, t, c, **extra):
        return _U().silu_glu(t["input"], t["gate"], mult=c["mult"], **extra)

    def ref(self, t, c, sum_reduce=False):
        import torch

        gte = t["gate"]
        return t["input"] * (gte * torch.sigmoid(gte * c["mult"]))

    def constrained(self, c):
        return ["input", "gate"]


class Softmax(Op):
    name = "softmax"
    coords = {"batch": BATCHES, "n": [5, 2, 8, 3], "dim": [-1, 0, 1, -2], "mult": MULTS,
              "constraint": BIN, "sm_dtype": [None, "float64", "float32"], "dtype": DT}

    def make(self, c, g):
        return {"input": _randn(g, c["batch"] + [c["n"]], c["dtype"])}

    def valid(self, c):
        r = len(c["batch"]) + 1
        return -r <= c["dim"] < r

    def unit(self, t, c, **extra):
        kw = {} if c["sm_dtype"] is None else {"dtype": tdtype(c["sm_dtype"])}
        return _U().softmax(t["input"], dim=c["dim"], mult=c["mult"], constraint=c["constraint"], **kw, **extra)

    def ref(self, t, c, sum_reduce=False):
        import torch.nn.functional as F

        kw = {} if c["sm_dtype"] is None else {"dtype": tdtype(c["sm_dtype"])}
        return F.softmax(t["input"] * c["mult"], dim=c["dim"], **kw)

    def constrained(self, c):
        return ["input"]


class Dropout(Op):
    name = "dropout"
    coords = {"batch": BATCHES, "n": [8, 1, 5, 64], "p": [0.5, 0.0, 0.1, 0.9], "training": [True, False],
              "dtype": DT}
    unsupported = [{"inplace": True}]

    def make(self, c, g):
        return {"input": _randn(g, c["batch"] + [c["n"]], c["dtype"])}

    def unit(self, t, c, **extra):
        return _U().dropout(t["input"], p=c["p"], training=c["training"], **extra)

    def ref(self, t, c, sum_reduce=False):
        import torch.nn.functional as F

        return F.dropout(t["input"], p=c["p"], training=c["training"])


# ----------------------------------------------------------------------------- contractions
class Matmul(Op):
    name = "matmul"
    coords = {"batch": BATCHES[:1] + [[]] + BATCHES[2:], "m": [3, 1, 5, 8], "k": [5, 1, 2, 8], "n": [2, 1, 3, 8],
              "right_batched": [True, False], "constraint": TER, "dtype": DT}

    def make(self, c, g):
        rb = c["batch"] if c["right_batched"] else []
        return {"left": _randn(g, c["batch"] + [c["m"], c["k"]], c["dtype"]),
                "right": _randn(g, rb + [c["k"], c["n"]], c["dtype"])}

    def unit(self, t, c, **extra):
        return _U().matmul(t["left"], t["right"], constraint=c["constraint"], **extra)

    def ref(self, t, c, sum_reduce=False):
        import torch

        return torch.matmul(t["left"], t["right"])

    def constrained(self, c):
        return ["left", "right"]


class Linear(Op):
    name = "linear"
    fn = "linear"
    coords = {"batch": BATCHES, "fin": [5, 1, 2, 8], "fout": [3, 1, 2, 8], "bias": [False, True],
              "constraint": BIN, "dtype": DT}

    def make(self, c, g):
        t = {"input": _randn(g, c["batch"] + [c["fin"]], c["dtype"]),
             "weight": _randn(g, [c["fout"], c["fin"]], c["dtype"])}
        if c["bias"]:
            t["bias"] = _randn(g, [c["fout"]], c["dtype"])
        return t

    def unit(self, t, c, **extra):
        return getattr(_U(), self.fn)(t["input"], t["weight"], t.get("bias"), constraint=c["constraint"], **extra)

    def ref(self, t, c, sum_reduce=False):
        import torch.nn.functional as F

        return F.linear(t["input"], t["weight"], t.get("bias"))

    def constrained(self, c):
        return ["input"]


class LinearReadout(Linear):
    name = "linear_readout"
    fn = "linear_readout"
    coords = dict(Linear.coords, constraint=[None, "to_output_scale", "gmean", "hmean", "amean", "to_grad_input_scale", ""])


class Conv1d(Op):
    name = "conv1d"
    coords = {"batch": [[2], [], [3], [1]], "cin": [4, 1, 2, 6], "cout": [2, 1, 4, 6], "k": [3, 1, 2, 5],
              "L": [9, 12], "stride": [1, 2, 3], "padding": [0, 1, 2], "dilation": [1, 2],
              "groups": [1, 2, "cin"], "bias": [False, True], "constraint": BIN, "dtype": DT}

    def _groups(self, c):
        return c["cin"] if c["groups"] == "cin" else c["groups"]

    def valid(self, c):
        gr = self._groups(c)
        return c["cin"] % gr == 0 and c["cout"] % gr == 0 and (
            c["L"] + 2 * c["padding"] - c["dilation"] * (c["k"] - 1) - 1 >= 0)

    def make(self, c, g):
        gr = self._groups(c)
        t = {"input": _randn(g, c["batch"] + [c["cin"], c["L"]], c["dtype"]),
             "weight": _randn(g, [c["cout"], c["cin"] // gr, c["k"]], c["dtype"])}
        if c["bias"]:
            t["bias"] = _randn(g, [c["cout"]], c["dtype"])
        return t

    def unit(self, t, c, **extra):
        return _U().conv1d(t["input"], t["weight"], t.get("bias"), stride=c["stride"], padding=c["padding"],
                           dilation=c["dilation"], groups=self._groups(c), constraint=c["constraint"], **extra)

    def ref(self, t, c, sum_reduce=False):
        import torch.nn.functional as F

        return F.conv1d(t["input"], t["weight"], t.get("bias"), stride=c["stride"], padding=c["padding"],
                        dilation=c["dilation"], groups=self._groups(c))

    def constrained(self, c):
        return ["input"]


# ----------------------------------------------------------------------------- norms
class LayerNorm(Op):
    name = "layer_norm"
    exact_one = True
    coords = {"batch": BATCHES, "n": [5, 2, 8, 3], "nd": [1, 2], "weight": [True, False], "bias": [True, False],
              "eps": [1e-5, 1e-2], "dtype": DT}

    def _ns(self, c):
        return [c["n"]] if c["nd"] == 1 else [2, c["n"]]

    def make(self, c, g):
        ns = self._ns(c)
        t = {"input": _randn(g, c["batch"] + ns, c["dtype"])}
        if c["weight"]:
            t["weight"] = _randn(g, ns, c["dtype"])
        if c["bias"]:
            t["bias"] = _randn(g, ns, c["dtype"])
        return t

    def unit(self, t, c, **extra):
        return _U().layer_norm(t["input"], self._ns(c), t.get("weight"), t.get("bias"), eps=c["eps"], **extra)

    def ref(self, t, c, sum_reduce=False):
        import torch.nn.functional as F

        return F.layer_norm(t["input"], self._ns(c), t.get("weight"), t.get("bias"), eps=c["eps"])


class RmsNorm(Op):
    name = "rms_norm"
    exact_one = True
    coords = {"batch": BATCHES, "n": [5, 2, 8, 3], "nd": [1, 2], "weight": [True, False],
              "eps": [1e-5, 1e-2], "dtype": DT}

    def _ns(self, c):
        return (c["n"],) if c["nd"] == 1 else (2, c["n"])

    def make(self, c, g):
        ns = list(self._ns(c))
        t = {"input": _randn(g, c["batch"] + ns, c["dtype"])}
        if c["weight"]:
            t["weight"] = _randn(g, ns, c["dtype"])
        return t

    def unit(self, t, c, **extra):
        return _U().rms_norm(t["input"], self._ns(c), t.get("weight"), eps=c["eps"], **extra)

    def ref(self, t, c, sum_reduce=False):
        import torch.nn.functional as F

        return F.rms_norm(t["input"], list(self._ns(c)), t.get("weight"), eps=c["eps"])


# ----------------------------------------------------------------------------- add
ADD_PATTERNS = ["equal", "size1", "missing_leading", "both_expand", "scalar_tensor", "one_elem_right",
                "py_float_right", "py_int_left", "missing_and_size1", "missing_and_size1_left", "size1_inner"]


class Add(Op):
    name = "add"
    coords = {"batch": [[2, 3], [2], [], [1, 2, 3]], "n": [5, 2, 3], "pattern": ADD_PATTERNS,
              "constraint": TER, "dtype": DT}
    unsupported = [{"alpha": 2}]

    def valid(self, c):
        if c["pattern"] in ("size1", "missing_leading", "both_expand") and not c["batch"]:
            return False
        if c["pattern"] in ("missing_and_size1", "missing_and_size1_left", "size1_inner") and len(c["batch"]) < 2:
            return False
        return True

    def shapes(self, c):
        full = c["batch"] + [c["n"]]
        p = c["pattern"]
        if p == "equal":
            return full, full
        if p == "size1":
            return full, [1] * len(c["batch"]) + [c["n"]]
        if p == "missing_leading":
            return full, [c["n"]]
        if p == "both_expand":
            return c["batch"] + [1], [1] * len(c["batch"]) + [c["n"]]
        if p == "missing_and_size1":  # ONE operand has both a missing leading dim and an expanded size-1 dim
            return full, [1, c["n"]]
        if p == "missing_and_size1_left":
            return [1, c["n"]], full
        if p == "size1_inner":
            return full, [c["batch"][-1], 1]
        if p == "scalar_tensor":
            return full, []
        if p == "one_elem_right":
            return full, [1]
        return full, None

    def make(self, c, g):
        a, b = self.shapes(c)
        t = {"input": _randn(g, a, c["dtype"])}
        if b is not None:
            t["other"] = _randn(g, b, c["dtype"])
        return t

    def _args(self, t, c):
        p = c["pattern"]
        if p == "py_float_right":
            return t["input"], 2.5
        if p == "py_int_left":
            return 3, t["input"]
        return t["input"], t["other"]

    def unit(self, t, c, **extra):
        a, b = self._args(t, c)
        return _U().add(a, b, constraint=c["constraint"], **extra)

    def ref(self, t, c, sum_reduce=False):
        import torch

        a, b = self._args(t, c)
        return torch.add(a, b)

    def constrained(self, c):
        return ["input", "other"] if not c["pattern"].startswith("py_") else []


# ----------------------------------------------------------------------------- embedding
class Embedding(Op):
    name = "embedding"
    exact_one = True
    coords = {"batch": BATCHES, "n": [4, 1, 7], "V": [6, 2, 11], "D": [3, 1, 5], "padding_idx": [None, 0, -1],
              "max_norm": [None, 1.0], "norm_type": [2.0, 1.0], "pad_hit": [True, False], "dtype": DT}
    unsupported = [{"scale_grad_by_freq": True}, {"sparse": True}]

    def make(self, c, g):
        import torch

        idx = torch.randint(0, c["V"], c["batch"] + [c["n"]], generator=g)
        if c.get("padding_idx") is not None and not c.get("pad_hit", True) and c["V"] > 1:
            pad = c["padding_idx"] % c["V"]
            idx = torch.where(idx == pad, (idx + 1) % c["V"], idx)  # the padding row is never looked up
        return {"input": idx, "weight": _randn(g, [c["V"], c["D"]], c["dtype"])}

    def unit(self, t, c, **extra):
        return _U().embedding(t["input"], t["weight"], padding_idx=c["padding_idx"], max_norm=c["max_norm"],
                              norm_type=c["norm_type"], **extra)

    def ref(self, t, c, sum_reduce=False):
        import torch.nn.functional as F

        return F.embedding(t["input"], t["weight"], padding_idx=c["padding_idx"], max_norm=c["max_norm"],
                           norm_type=c["norm_type"])


# ----------------------------------------------------------------------------- attention
class Sdpa(Op):
    name = "scaled_dot_product_attention"
    coords = {"batch": [[2], [], [2, 3], [1, 2, 2]], "L": [4, 1, 3], "S": [4, 2, 5], "d": [3, 1, 8], "dv": [None, 5, 1],
              "mask": [None, "bool", "float"], "dropout_p": [0.0, 0.5], "is_causal": [False, True],
              "mult": MULTS, "dtype": DT}

    def valid(self, c):
        if c["is_causal"] and c["mask"] is not None:
            return False
        return True

    def make(self, c, g):
        import torch

        b = c["batch"]
        t = {"query": _randn(g, b + [c["L"], c["d"]], c["dtype"]),
             "key": _randn(g, b + [c["S"], c["d"]], c["dtype"]),
             "value": _randn(g, b + [c["S"], c.get("dv") or c["d"]], c["dtype"])}
        if c["mask"] == "bool":
            m = torch.rand([c["L"], c["S"]], generator=g) > 0.3
            m[:, 0] = True
            t["attn_mask"] = m
        elif c["mask"] == "float":
            t["attn_mask"] = _randn(g, [c["L"], c["S"]], c["dtype"]).detach()
        return t

    def unit(self, t, c, **extra):
        return _U().scaled_dot_product_attention(
            t["query"], t["key"], t["value"], attn_mask=t.get("attn_mask"), dropout_p=c["dropout_p"],
            is_causal=c["is_causal"], mult=c["mult"], **extra)

    def ref(self, t, c, sum_reduce=False):
        import torch.nn.functional as F

        return F.scaled_dot_product_attention(
            t["query"], t["key"], t["value"], attn_mask=t.get("attn_mask"), dropout_p=c["dropout_p"],
            is_causal=c["is_causal"], scale=c["mult"] / c["d"])

    def constrained(self, c):
        return ["query", "key", "value"]


# ----------------------------------------------------------------------------- losses
class CrossEntropy(Op):
    name = "cross_entropy"
    exact_one = True
    loss = True
    coords = {"N": [4, None, 1, 7], "V": [5, 2, 3, 11], "ignore": ["none", "some", "all_but_one"],
              "ignore_index": [-100, 1], "reduction": ["mean", "sum"], "target_kind": ["index", "prob"],
              "mult": MULTS, "dtype": DT}
    unsupported = [{"weight": "TENSOR"}, {"size_average": False}, {"reduce": False}, {"label_smoothing": 0.1}]

    def valid(self, c):
        if c["target_kind"] == "prob" and c["ignore"] != "none":
            return False
        if c["N"] is None and c["ignore"] == "some":
            return False
        if c["N"] == 1 and c["ignore"] == "some":
            return False
        return True

    def make(self, c, g):
        import torch

        N, V = c["N"], c["V"]
        sh = [V] if N is None else [N, V]
        t: Dict[str, Any] = {"input": _randn(g, sh, c["dtype"])}
        if c["target_kind"] == "prob":
            t["target"] = torch.softmax(torch.randn(sh, dtype=torch.float64, generator=g), -1).to(tdtype(c["dtype"]))
            return t
        ii = c["ignore_index"]
        nn_ = 1 if N is None else N
        tg = torch.randint(0, V, [nn_], generator=g)
        if ii >= 0:
            tg = torch.where(tg == ii, (tg + 1) % V, tg)  # only deliberately ignored entries
        if c["ignore"] == "some":
            k = int(torch.randint(1, nn_, [1], generator=g))  # data-dependent count (differs per draw)
            tg[:k] = ii
        elif c["ignore"] == "all_but_one":
            tg[1:] = ii
        t["target"] = tg[0] if N is None else tg
        return t

    def unit(self, t, c, **extra):
        extra = {k: (None if v is None else v) for k, v in extra.items()}
        return _U().cross_entropy(t["input"], t["target"], ignore_index=c["ignore_index"],
                                  reduction=c["reduction"], mult=c["mult"], **extra)

    def ref(self, t, c, sum_reduce=False):
        import torch.nn.functional as F

        red = "sum" if sum_reduce else c["reduction"]
        return F.cross_entropy(t["input"] * c["mult"], t["target"], ignore_index=c["ignore_index"], reduction=red)


class MseLoss(Op):
    name = "mse_loss"
    exact_one = True
    loss = True
    coords = {"batch": BATCHES, "n": [5, 1, 8, 3], "reduction": ["mean", "sum"], "target_grad": [False, True],
              "dtype": DT}
    unsupported = [{"size_average": False}, {"reduce": False}]

    def make(self, c, g):
        sh = c["batch"] + [c["n"]]
        return {"input": _randn(g, sh, c["dtype"]), "target": _randn(g, sh, c["dtype"])}

    def unit(self, t, c, **extra):
        return _U().mse_loss(t["input"], t["target"], reduction=c["reduction"], **extra)

    def ref(self, t, c, sum_reduce=False):
        import torch.nn.functional as F

        red = "sum" if sum_reduce else c["reduction"]
        return F.mse_loss(t["input"], t["target"], reduction=red)


OPS: Dict[str, Op] = {o.name: o for o in [
    Gelu(), Silu(), SiluGlu(), Softmax(), Dropout(), Matmul(), Linear(), LinearReadout(), Conv1d(),
    LayerNorm(), RmsNorm(), Add(), Embedding(), Sdpa(), CrossEntropy(), MseLoss()]}


def default_cfg(op: Op) -> Dict[str, Any]:
    return {k: v[0] for k, v in op.coords.items()}


def lattice(op: Op, d: int, fixed: Optional[Dict[str, Any]] = None,
            restrict: Optional[Dict[str, List[Any]]] = None) -> List[Dict[str, Any]]:
    """All configurations with at most d coordinates deviating from the default (first)
    value, breadth-first in the number of deviations.  `fixed` pins coordinates (not counted
    as deviations); `restrict` narrows domains."""
    coords = {k: list(v) for k, v in op.coords.items()}
    if restrict:
        for k, v in restrict.items():
            if k in coords:
                coords[k] = list(v)
    base = {k: v[0] for k, v in coords.items()}
    if fixed:
        for k, v in fixed.items():
            if k in coords:
                base[k] = v
                coords[k] = [v]
    names = [k for k, v in coords.items() if len(v) > 1]
    out, seen = [], set()
    for nd in range(0, min(d, len(names)) + 1):
        for sel in itertools.combinations(names, nd):
            for vals in itertools.product(*[coords[k][1:] for k in sel]):
                c = dict(base)
                c.update(dict(zip(sel, vals)))
                key = repr(sorted(c.items(), key=lambda kv: kv[0]))
                if key in seen or not op.valid(c):
                    continue
                seen.add(key)
                out.append(c)
    return out
