"""Scale-probe engine: run a unit-scaled op and its PyTorch reference on identical tensors,
forward and backward, and fit the scalars relating them (least squares, float64)."""

from __future__ import annotations

from typing import Any, Dict, List, Optional, Tuple

from models.ops import Op

TOL = {"float64": 1e-10, "float32": 2e-4, "bfloat16": 4e-2, "float16": 6e-3}
NODIFF = {"attn_mask"}


def fit(a: Any, b: Any) -> Tuple[Optional[float], float]:
    """Least-squares scalar s with a ~ s*b, and the max-norm relative residual."""
    import torch

    a = a.detach().to(torch.float64).flatten()
    b = b.detach().to(torch.float64).flatten()
    if a.numel() == 0:
        return None, 0.0
    bb = float((b * b).sum())
    if bb == 0.0 or not torch.isfinite(b).all():
        return None, float(a.abs().max()) if a.numel() else 0.0
    s = float((a * b).sum()) / bb
    denom = max(abs(s) * float(b.abs().max()), 1e-300)
    res = float((a - s * b).abs().max()) / denom
    return s, res


def _clone_inputs(t: Dict[str, Any], diff: List[str]) -> Dict[str, Any]:
    out = {}
    for k, v in t.items():
        c = v.detach().clone()
        if k in diff:
            c.requires_grad_(True)
        out[k] = c
    return out


def diff_names(op: Op, t: Dict[str, Any], cfg: Dict[str, Any]) -> List[str]:
    names = []
    for k, v in t.items():
        if k in NODIFF or not v.is_floating_point():
            continue
        if op.name == "mse_loss" and k == "target" and not cfg.get("target_grad", False):
            continue
        names.append(k)
    return names


def probe_env(op: Op, cfg: Dict[str, Any], seed: int, env: str, draws: int = 2, gdraws: int = 2) -> Dict[str, Any]:
    """probe() under an ambient-environment deviation: autograd disabled, or another default dtype"""
    import contextlib

    import torch

    if env in ("no_grad", "inference_mode"):
        ctx: Any = torch.no_grad() if env == "no_grad" else torch.inference_mode()
        with ctx:
            return probe(op, cfg, seed, draws=draws, gdraws=0)
    if env.startswith("default_dtype="):
        old = torch.get_default_dtype()
        try:
            torch.set_default_dtype(getattr(torch, env.split("=")[1]))
            return probe(op, cfg, seed, draws=draws, gdraws=gdraws)
        finally:
            torch.set_default_dtype(old)
    if env in ("noncontiguous", "expanded_batch") or env.startswith("magnitude="):
        return probe(op, cfg, seed, draws=draws, gdraws=gdraws, layout=env)
    if env.startswith("freeze="):
        return probe(op, cfg, seed, draws=draws, gdraws=gdraws, freeze=env.split("=")[1])
    if env.startswith("argform="):
        from models import ops as _ops

        _ops.ARGFORM[0] = env.split("=")[1]
        try:
            return probe(op, cfg, seed, draws=draws, gdraws=gdraws)
        finally:
            _ops.ARGFORM[0] = None
    if env.startswith("after_dtype="):
        try:  # history: the same configuration is first used in a low-precision dtype
            probe(op, dict(cfg, dtype=env.split("=")[1]), seed, draws=1, gdraws=1)
        except Exception:  # noqa
            pass
        return probe(op, cfg, seed, draws=draws, gdraws=gdraws)
    with contextlib.nullcontext():
        return probe(op, cfg, seed, draws=draws, gdraws=gdraws)


def _ref_noise(op: Op, cfg: Dict[str, Any], tr: Dict[str, Any], diff: List[str], up: Any, gr: Any, k0: int) -> Dict[str, float]:
    """Rounding noise of the *reference* gradient in a low-precision dtype: the same PyTorch
    reference evaluated on the same values in float64.  Where the reference itself is not accurate to
    the comparison tolerance (cancellation, a gradient that is exactly zero in exact arithmetic),
    proportionality of the low-precision gradients is not decidable and the caller skips it.
    Deterministic configurations only (a dropout mask need not be the same across dtypes)."""
    import torch

    if cfg.get("dtype") in (None, "float64") or op.name == "dropout" or cfg.get("dropout_p", 0.0):
        return {}
    try:
        t64 = {k: (v.detach().double().requires_grad_(k in diff) if isinstance(v, torch.Tensor) and v.is_floating_point() else v)
               for k, v in tr.items()}
        torch.manual_seed(k0)
        y64 = op.ref(t64, cfg, sum_reduce=True) if op.loss else op.ref(t64, cfg)
        g64 = torch.autograd.grad(y64, [t64[k] for k in diff], up.to(y64.dtype), allow_unused=True)
    except Exception:  # noqa - no float64 twin for this configuration: no noise information
        return {}
    out = {}
    for k, b, b64 in zip(diff, gr, g64):
        if b is None or b64 is None:
            continue
        den = float(b.detach().double().abs().max())
        out[k] = float((b.detach().double() - b64.detach()).abs().max()) / den if den > 0 else 0.0
    return out


def relayout(t: Dict[str, Any], layout: str) -> Dict[str, Any]:
    """same values, different memory layout: non-contiguous (transposed storage / strided) or a
    stride-0 expanded leading dimension"""
    import torch

    out = {}
    for k, v in t.items():
        if not isinstance(v, torch.Tensor) or not v.is_floating_point() or v.dim() == 0:
            out[k] = v
            continue
        if layout.startswith("magnitude="):
            out[k] = (v.double() * float(layout.split("=")[1])).to(v.dtype) if k == "input" else v
            continue
        if layout == "noncontiguous":
            if v.dim() >= 2:
                w = v.transpose(-1, -2).contiguous().transpose(-1, -2)
            else:
                w = v.repeat_interleave(2)[::2]
            assert torch.equal(w, v)
            out[k] = w
        else:
            # expanded: only where the leading dim can be produced by expand (all rows equal) -> make it so
            if v.dim() >= 2 and k == "input":
                w = v[:1].expand(v.shape)
                out[k] = w
            else:
                out[k] = v
    return out


def probe(op: Op, cfg: Dict[str, Any], seed: int, draws: int = 2, gdraws: int = 2, layout: str = "",
          freeze: str = "") -> Dict[str, Any]:
    """Returns {"skipped": reason} | {"unit_exc": exc} | {"draws": [...]}; every draw holds the
    forward scalar/residual, per-input backward scalars/residuals for each upstream-gradient
    draw, shape/dtype agreement, modification flags and a repeated-call comparison."""
    import torch

    out: Dict[str, Any] = {"draws": []}
    for d in range(draws):
        g = torch.Generator().manual_seed((seed * 1000003 + d * 7919 + 13) % (2**31))
        try:
            t = op.make(cfg, g)
        except Exception as e:  # noqa  (builder could not make this config: outside the lattice)
            return {"skipped": f"build:{type(e).__name__}"}
        diff = [k for k in diff_names(op, t, cfg) if k != freeze]
        if layout:
            t = relayout(t, layout)
            tu = {k: (v.detach().requires_grad_(k in diff) if isinstance(v, torch.Tensor) and v.is_floating_point() else v) for k, v in relayout(_clone_inputs(t, []), layout).items()}
            tr = {k: (v.detach().requires_grad_(k in diff) if isinstance(v, torch.Tensor) and v.is_floating_point() else v) for k, v in relayout(_clone_inputs(t, []), layout).items()}
        else:
            tu, tr = _clone_inputs(t, diff), _clone_inputs(t, diff)
        def _ver(v: Any) -> Any:
            try:
                return v._version
            except RuntimeError:  # inference tensors do not track a version counter
                return None

        snap = {k: (_ver(v), v.detach().clone()) for k, v in tu.items()}
        k0 = 4242 + d
        try:
            torch.manual_seed(k0)
            yr = op.ref(tr, cfg)
            yr_g = op.ref(tr, cfg, sum_reduce=True) if op.loss else yr
        except Exception as e:  # noqa  reference rejects: configuration invalid
            return {"skipped": f"ref:{type(e).__name__}"}
        try:
            torch.manual_seed(k0)
            yu = op.unit(tu, cfg)
            torch.manual_seed(k0)
            yu2 = op.unit(tu, cfg)
        except Exception as e:  # noqa
            return {"unit_exc": e}
        rec: Dict[str, Any] = {}
        rec["shape_ok"] = tuple(yu.shape) == tuple(yr.shape)
        rec["dtype_ok"] = yu.dtype == yr.dtype
        rec["shapes"] = (tuple(yu.shape), str(yu.dtype), tuple(yr.shape), str(yr.dtype))
        if not rec["shape_ok"]:
            out["draws"].append(rec)
            continue
        rec["s"], rec["res"] = fit(yu, yr)
        rec["ref_zero"] = rec["s"] is None
        rec["finite"] = bool(torch.isfinite(yr.detach().to(torch.float64)).all())
        rec["repeat_equal"] = bool(torch.equal(yu.detach(), yu2.detach())) or (
            bool(torch.isnan(yu.detach()).any()) and bool(torch.isnan(yu2.detach()).any()))
        # ---- backward
        rec["grads"] = {k: [] for k in diff}
        if diff and yu.requires_grad and yr_g.requires_grad:
            for gd in range(gdraws):
                gg = torch.Generator().manual_seed((seed * 31 + d * 101 + gd * 17 + 5) % (2**31))
                up = torch.randn(yr.shape, dtype=torch.float64, generator=gg)
                if gd == 1:
                    up = up * 3.0 - 0.5
                try:
                    gu = torch.autograd.grad(yu, [tu[k] for k in diff], up.to(yu.dtype), retain_graph=True,
                                             allow_unused=True)
                except Exception as e:  # noqa
                    return {"unit_exc": e}
                gr = torch.autograd.grad(yr_g, [tr[k] for k in diff], up.to(yr_g.dtype), retain_graph=True,
                                         allow_unused=True)
                noise = _ref_noise(op, cfg, tr, diff, up, gr, k0)
                for k, a, b in zip(diff, gu, gr):
                    if b is None and a is None:
                        rec["grads"][k].append({"c": None, "res": 0.0, "zero": True})
                        continue
                    if a is None or b is None:
                        rec["grads"][k].append({"c": None, "res": float("inf"), "zero": False,
                                                "missing": "unit" if a is None else "ref"})
                        continue
                    c, res = fit(a, b)
                    rec["grads"][k].append({"c": c, "res": res, "zero": c is None, "noise": noise.get(k, 0.0),
                                            "dtype_ok": a.dtype == b.dtype and a.shape == b.shape})
        # ---- inputs untouched
        mod = []
        for k, (ver, val) in snap.items():
            cur = tu[k]
            if _ver(cur) != ver or not torch.equal(cur.detach(), val):
                mod.append(k)
        rec["modified"] = mod
        out["draws"].append(rec)
    return out


def term_counts(op: Op, cfg: Dict[str, Any]) -> Dict[str, Any]:
    """Measured term counts: run the PyTorch reference on all-ones operands.  Output
    element value = number of unit-variance products summed into it; gradient w.r.t. each
    input with an all-ones upstream gradient = number of terms per gradient element."""
    import torch

    g = torch.Generator().manual_seed(1)
    c64 = dict(cfg, dtype="float64")
    t = op.make(c64, g)
    diff = diff_names(op, t, c64)
    ones = {}
    for k, v in t.items():
        if v.is_floating_point():
            o = torch.ones_like(v)
            if k == "bias":
                o = torch.zeros_like(v)
            ones[k] = o.requires_grad_(k in diff)
        else:
            ones[k] = v.clone()
    y = op.ref(ones, c64)
    res: Dict[str, Any] = {"out": y.detach().clone()}
    grads = torch.autograd.grad(y, [ones[k] for k in diff], torch.ones_like(y), allow_unused=True)
    for k, gk in zip(diff, grads):
        res[k] = None if gk is None else gk.detach().clone()
    return res
