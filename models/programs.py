"""Straight-line tensor programs over a typed instruction alphabet (explorer kind P).

A program is JSON:  {"first": "x"|"emb"|"emb_pos", "items": [item...], "sink": str,
"root": "container"|"sequential", "dtype": "float32"|"float64"}
item := ["op", key] | ["res", [item...], "skip_first"|"branch_first"]

* `emit(prog)` produces the SOURCE TEXT of an nn.Module (own code object per program, so
  TorchDynamo caches can never alias two programs) and builds it.
* `Interp` is an independent reference interpreter of the same AST; a `Semantics` object
  decides how each call is executed (plain / hand-quantised / hand-unit-scaled / recording).

Hidden state shape is (B, S, D) = (2, 4, 8).
"""

from __future__ import annotations

import itertools
from typing import Any, Callable, Dict, List, Optional, Tuple

B, S, D = 2, 4, 8
V = 11  # vocabulary for embedding programs


# --------------------------------------------------------------------------- alphabet
# key -> dict(init=[src lines], expr=src, fn=function key, args=lambda h, m, i -> (args, kwargs))
# `m` is the module instance (parameters are read from it), `i` the instruction index.
def _alphabet() -> Dict[str, Dict[str, Any]]:
    A: Dict[str, Dict[str, Any]] = {}

    def op(key: str, fn: str, expr: str, args: Callable[..., Any], init: Optional[List[str]] = None, **meta: Any) -> None:
        A[key] = dict(fn=fn, expr=expr, args=args, init=init or [], **meta)

    W = ["self.w{i} = nn.Parameter(torch.randn(D, D))"]
    WB = W + ["self.b{i} = nn.Parameter(torch.randn(D))"]
    g = lambda m, n, i: getattr(m, f"{n}{i}")  # noqa: E731
    # ---- linear family (torch)
    op("linear:F_nobias", "F.linear", "F.linear({h}, self.w{i})", lambda h, m, i: ((h, g(m, "w", i)), {}), W)
    op("linear:F_bias_pos", "F.linear", "F.linear({h}, self.w{i}, self.b{i})", lambda h, m, i: ((h, g(m, "w", i), g(m, "b", i)), {}), WB)
    op("linear:F_bias_kw", "F.linear", "F.linear({h}, self.w{i}, bias=self.b{i})", lambda h, m, i: ((h, g(m, "w", i)), {"bias": g(m, "b", i)}), WB)
    op("linear:F_weight_kw", "F.linear", "F.linear({h}, weight=self.w{i}, bias=self.b{i})", lambda h, m, i: ((h,), {"weight": g(m, "w", i), "bias": g(m, "b", i)}), WB)
    op("linear:F_all_kw", "F.linear", "F.linear(input={h}, weight=self.w{i}, bias=self.b{i})",
       lambda h, m, i: ((), {"input": h, "weight": g(m, "w", i), "bias": g(m, "b", i)}), WB)
    op("linear:nn", "F.linear", "self.lin{i}({h})", lambda h, m, i: ((h, g(m, "lin", i).weight, g(m, "lin", i).bias), {}),
       ["self.lin{i} = nn.Linear(D, D)"], module=True)
    op("linear:nn_nobias", "F.linear", "self.lin{i}({h})", lambda h, m, i: ((h, g(m, "lin", i).weight, None), {}),
       ["self.lin{i} = nn.Linear(D, D, bias=False)"], module=True)
    # ---- linear family (unit-scaled)
    op("ulinear:U", "U.linear", "U.linear({h}, self.w{i}, None)", lambda h, m, i: ((h, g(m, "w", i), None), {}), W)
    op("ulinear:U_con_pos", "U.linear", "U.linear({h}, self.w{i}, self.b{i}, 'gmean')", lambda h, m, i: ((h, g(m, "w", i), g(m, "b", i), "gmean"), {}), WB)
    op("ulinear:U_con_kw", "U.linear", "U.linear({h}, self.w{i}, None, constraint=None)", lambda h, m, i: ((h, g(m, "w", i), None), {"constraint": None}), W)
    op("ulinear:uu", "U.linear", "self.ulin{i}({h})", lambda h, m, i: ((h, g(m, "ulin", i).weight, g(m, "ulin", i).bias, g(m, "ulin", i).constraint), {}),
       ["self.ulin{i} = uu.Linear(D, D, bias=True)"], module=True)
    # ---- attention (h is used as q, k and v: batch B, sequence S, head size D)
    MASK = ["self.register_buffer('mask{i}', torch.ones(S, S, dtype=torch.bool).tril())"]
    for pre, fn in (("sdpa", "F.scaled_dot_product_attention"), ("usdpa", "U.scaled_dot_product_attention")):
        op(f"{pre}:plain", fn, fn + "({h}, {h}, {h})", lambda h, m, i: ((h, h, h), {}))
        op(f"{pre}:causal_kw", fn, fn + "({h}, {h}, {h}, is_causal=True)", lambda h, m, i: ((h, h, h), {"is_causal": True}))
        op(f"{pre}:mask_pos", fn, fn + "({h}, {h}, {h}, self.mask{i})", lambda h, m, i: ((h, h, h, g(m, "mask", i)), {}), MASK)
        op(f"{pre}:mask_kw", fn, fn + "({h}, {h}, {h}, attn_mask=self.mask{i})", lambda h, m, i: ((h, h, h), {"attn_mask": g(m, "mask", i)}), MASK)
        op(f"{pre}:all_kw", fn, fn + "(query={h}, key={h}, value={h})", lambda h, m, i: ((), {"query": h, "key": h, "value": h}))
        op(f"{pre}:dropout0_kw", fn, fn + "({h}, {h}, value={h}, dropout_p=0.0)", lambda h, m, i: ((h, h), {"value": h, "dropout_p": 0.0}))
    # ---- mapped elementwise / norms (functional and torch.nn wrappers)
    op("gelu:F", "F.gelu", "F.gelu({h})", lambda h, m, i: ((h,), {}))
    op("gelu:F_kw", "F.gelu", "F.gelu(input={h})", lambda h, m, i: ((), {"input": h}))
    op("gelu:F_tanh", "F.gelu", "F.gelu({h}, approximate='tanh')", lambda h, m, i: ((h,), {"approximate": "tanh"}))
    op("gelu:nn", "F.gelu", "self.act{i}({h})", lambda h, m, i: ((h,), {"approximate": "none"}), ["self.act{i} = nn.GELU()"], module=True)
    op("silu:F", "F.silu", "F.silu({h})", lambda h, m, i: ((h,), {}))
    op("softmax:F", "F.softmax", "F.softmax({h}, dim=-1)", lambda h, m, i: ((h,), {"dim": -1}))
    op("softmax:F_pos", "F.softmax", "F.softmax({h}, -1)", lambda h, m, i: ((h, -1), {}))
    op("softmax:nn", "F.softmax", "self.sm{i}({h})", lambda h, m, i: ((h, -1), {}), ["self.sm{i} = nn.Softmax(dim=-1)"], module=True)
    op("dropout:F_p0", "F.dropout", "F.dropout({h}, p=0.0)", lambda h, m, i: ((h,), {"p": 0.0}))
    op("dropout:F_eval", "F.dropout", "F.dropout({h}, p=0.3, training=False)", lambda h, m, i: ((h,), {"p": 0.3, "training": False}))
    op("dropout:F_eval_pos", "F.dropout", "F.dropout({h}, 0.3, False)", lambda h, m, i: ((h, 0.3, False), {}))
    op("layer_norm:F", "F.layer_norm", "F.layer_norm({h}, (D,))", lambda h, m, i: ((h, (D,)), {}))
    op("layer_norm:F_affine", "F.layer_norm", "F.layer_norm({h}, (D,), self.g{i}, self.b{i})",
       lambda h, m, i: ((h, (D,), g(m, "g", i), g(m, "b", i)), {}),
       ["self.g{i} = nn.Parameter(torch.randn(D))", "self.b{i} = nn.Parameter(torch.randn(D))"])
    op("layer_norm:nn", "F.layer_norm", "self.ln{i}({h})", lambda h, m, i: ((h, (D,), g(m, "ln", i).weight, g(m, "ln", i).bias, 1e-5), {}),
       ["self.ln{i} = nn.LayerNorm(D)"], module=True)
    op("matmul:param", "torch.matmul", "torch.matmul({h}, self.w{i})", lambda h, m, i: ((h, g(m, "w", i)), {}), W)
    op("conv1d:F", "F.conv1d", "F.conv1d({h}.transpose(1, 2), self.k{i}, padding=1).transpose(1, 2)",
       lambda h, m, i: ((h.transpose(1, 2), g(m, "k", i)), {"padding": 1}), ["self.k{i} = nn.Parameter(torch.randn(D, D, 3))"],
       post=lambda y: y.transpose(1, 2))
    op("gate_softmax", "gate_softmax", "{h} * F.softmax({h}, dim=-1)", lambda h, m, i: ((h,), {}))
    op("hand_scaled", "hand_scaled", "U.scale_fwd(U.scale_bwd({h}, 0.5) * 2.0, 0.25)", lambda h, m, i: ((h,), {}))
    op("custom_gelu", "custom_gelu", "custom_gelu({h})", lambda h, m, i: ((h,), {}))
    # ---- unmapped ops
    op("tanh", "torch.tanh", "torch.tanh({h})", lambda h, m, i: ((h,), {}))
    op("relu", "F.relu", "F.relu({h})", lambda h, m, i: ((h,), {}))
    op("mul_scalar", "mul", "{h} * 1.5", lambda h, m, i: ((h, 1.5), {}))
    # scale ratios just inside / outside the tolerance window of rtol = 2^-2 (1.25 < 1.3 <= 4/3; 1.35 outside)
    op("mul_1p3", "mul", "{h} * 1.3", lambda h, m, i: ((h, 1.3), {}))
    op("div_1p3", "div", "{h} / 1.3", lambda h, m, i: ((h, 1.3), {}))
    op("mul_1p35", "mul", "{h} * 1.35", lambda h, m, i: ((h, 1.35), {}))
    op("mul_1p2", "mul", "{h} * 1.2", lambda h, m, i: ((h, 1.2), {}))
    # the same operation reached through DIFFERENT targets that share a __name__ (operator.add vs torch.add, ...)
    op("torch_add_scalar", "torch.add", "torch.add({h}, 1.5)", lambda h, m, i: ((h, 1.5), {}))
    op("torch_neg", "torch.neg", "torch.neg({h})", lambda h, m, i: ((h,), {}))
    op("torch_mul_scalar", "torch.mul", "torch.mul({h}, 1.5)", lambda h, m, i: ((h, 1.5), {}))
    op("neg", "neg", "-{h}", lambda h, m, i: ((h,), {}))
    op("reshape", "reshape", "{h}.reshape(B, S, 2, D // 2).reshape(B, S, D)", lambda h, m, i: ((h,), {}))
    op("view_t", "view_t", "{h}.transpose(0, 1).contiguous().transpose(0, 1)", lambda h, m, i: ((h,), {}))
    op("rotate_half", "rotate_half", "torch.cat([-{h}[..., D // 2:], {h}[..., : D // 2]], dim=-1)", lambda h, m, i: ((h,), {}))
    op("cat_kw", "cat_kw", "torch.cat(tensors=[{h}.reshape(B, S, D), -{h}], dim=-1)[..., :D]", lambda h, m, i: ((h,), {}))
    op("stack_mean", "stack_mean", "torch.stack([{h}, {h} * 0.5], dim=0).sum(0)", lambda h, m, i: ((h,), {}))
    op("masked", "masked", "{h} * ({h} > 0).to({h}.dtype)", lambda h, m, i: ((h,), {}))
    op("cmp_two", "cmp_two", "{h} * ({h} > torch.tanh({h})).to({h}.dtype)", lambda h, m, i: ((h,), {}))
    op("gather_argmax", "gather_argmax", "torch.gather({h}, -1, {h}.argmax(-1).unsqueeze(-1).expand(B, S, D))", lambda h, m, i: ((h,), {}))
    op("add_ones", "add_ones", "{h} + torch.ones_like({h})", lambda h, m, i: ((h,), {}))
    op("index_rows", "index_rows", "{h}[:, torch.arange(S - 1, -1, -1)]", lambda h, m, i: ((h,), {}))
    # a NON-FINITE intermediate (additive -inf masking before a softmax): its statistics are inf / nan
    op("inf_mask_softmax", "inf_mask_softmax", "F.softmax({h}.masked_fill(self.imask{i}, float('-inf')), dim=-1)",
       lambda h, m, i: ((h, g(m, "imask", i)), {}), ["self.register_buffer('imask{i}', torch.arange(D) % 4 == 3)"])
    # a TWO-element intermediate (one statistic per batch row, B = 2), broadcast back
    op("row_mean_gate", "row_mean_gate", "{h} * {h}.mean(dim=(1, 2), keepdim=True)", lambda h, m, i: ((h,), {}))
    # ONE consumer takes the same (prunable, same-scale) node positionally AND by keyword
    op("add_view_both", "add_view_both", "(lambda v: torch.add(v, other=v))({h}.view(B, S, D))", lambda h, m, i: ((h,), {}))
    op("and_mask_both", "and_mask_both", "(lambda mk: {h} * torch.logical_and(mk, other=mk).to({h}.dtype))({h} > 0)", lambda h, m, i: ((h,), {}))
    op("with_zeros", "with_zeros", "{h} * self.zmask{i}", lambda h, m, i: ((h, g(m, "zmask", i)), {}),
       ["self.register_buffer('zmask{i}', (torch.arange(D) % 3 != 0).float())"])
    op("with_zeros_np", "with_zeros", "{h} * self.znp{i}", lambda h, m, i: ((h, g(m, "znp", i)), {}),
       ["self.register_buffer('znp{i}', (torch.arange(D) % 3 != 0).float(), persistent=False)"])  # a derived constant, not in state_dict
    # ---- adds
    op("add_scalar", "add", "{h} + 1.5", lambda h, m, i: ((h, 1.5), {}))
    op("add_scalar_left", "add", "0.5 + {h}", lambda h, m, i: ((0.5, h), {}))
    op("add_param", "add", "{h} + self.p{i}", lambda h, m, i: ((h, g(m, "p", i)), {}), ["self.p{i} = nn.Parameter(torch.randn(D))"])
    op("iadd_param", "iadd", None, lambda h, m, i: ((h, g(m, "p", i)), {}), ["self.p{i} = nn.Parameter(torch.randn(D))"], inplace=True)
    op("view_inplace", "view_inplace", None, lambda h, m, i: ((h,), {}), special="view_inplace")
    return A


ALPHABET = _alphabet()
SINKS = ["sum", "mse", "cross_entropy", "tensor", "two_outputs"]


def n_instr(items: List[Any]) -> int:
    return sum(1 if it[0] == "op" else (1 + n_instr(it[1]) + (n_instr(it[2]) if it[0] == "par" else 0)) for it in items)


def keys_of(items: List[Any]) -> List[str]:
    out: List[str] = []
    for it in items:
        if it[0] == "op":
            out.append(it[1])
        elif it[0] == "par":
            out += keys_of(it[1]) + keys_of(it[2])
        else:
            out += keys_of(it[1])
    return out


def contains_res(it: Any) -> bool:
    if it[0] == "res":
        return True
    if it[0] == "par":
        return any(contains_res(x) for x in it[1] + it[2])
    return False


# --------------------------------------------------------------------------- emitter
def emit_source(prog: Dict[str, Any]) -> str:
    init: List[str] = []
    body: List[str] = []
    counter = itertools.count()

    def fresh(p: str) -> str:
        return f"{p}{next(counter)}"

    def go(items: List[Any], h: str, ind: str) -> str:
        for it in items:
            if it[0] == "op":
                e = ALPHABET[it[1]]
                i = next(counter)
                for ln in e["init"]:
                    init.append(ln.format(i=i))
                nh = f"v{i}"
                if e.get("inplace"):
                    body.append(f"{ind}{nh} = {h} * 1.0")
                    body.append(f"{ind}{nh} += self.p{i}")
                elif e.get("special") == "view_inplace":
                    body.append(f"{ind}base{i} = {h} * 1.0")
                    body.append(f"{ind}view{i} = base{i}[:, 0]")
                    body.append(f"{ind}base{i}.mul_(2.0)")
                    body.append(f"{ind}{nh} = base{i} + view{i}.unsqueeze(1)")
                else:
                    body.append(f"{ind}{nh} = " + e["expr"].format(h=h, i=i))
                h = nh
            elif it[0] == "par":
                # two towers computed from the same tensor, merged by a PLAIN add (a DAG, not a chain)
                a = go(it[1], h, ind)
                b = go(it[2], h, ind)
                nh = fresh("p")
                body.append(f"{ind}{nh} = {a} + {b}")
                h = nh
            else:
                _, inner, order = it
                skip = h
                r = go(inner, h, ind)
                nh = fresh("r")
                body.append(f"{ind}{nh} = {skip} + {r}" if order == "skip_first" else f"{ind}{nh} = {r} + {skip}")
                h = nh
        return h

    first = prog.get("first", "x")
    if first == "x":
        sig, h0 = "x", "x"
    elif first == "emb":
        init.append("self.emb = nn.Embedding(V, D)")
        sig, h0 = "ids", "self.emb(ids)"
    elif first == "emb_F":
        init.append("self.ew = nn.Parameter(torch.randn(V, D))")
        sig, h0 = "ids", "F.embedding(ids, self.ew)"
    else:  # token + position embeddings: the skip tensor of a later residual is a plain sum
        init += ["self.emb = nn.Embedding(V, D)", "self.pos = nn.Embedding(S, D)"]
        sig, h0 = "ids", "self.emb(ids) + self.pos(torch.arange(S))"
    body.append(f"        h0 = {h0}")
    last = go(prog["items"], "h0", "        ")
    if prog.get("flag_tail"):
        # a Python-level switch: flipping the attribute makes TorchDynamo recompile to a smaller / larger graph
        init.append("self.extra = True")
        body.append("        if self.extra:")
        body.append(f"            {last} = F.gelu(torch.tanh({last}) * 2.0) + 0.25")
    if prog.get("out_name"):
        # TorchDynamo names graph nodes after local variables: e.g. a variable called `output`
        body.append(f"        {prog['out_name']} = {last} * 1.0")
        last = prog["out_name"]
    sink = prog.get("sink", "sum")
    extra_sig = ""
    if sink == "sum":
        body.append(f"        return {last}.sum()")
    elif sink == "tensor":
        body.append(f"        return {last}")
    elif sink == "two_outputs":
        body.append(f"        return {last}, {last}.mean()")
    elif sink == "mse":
        extra_sig = ", target"
        body.append(f"        return F.mse_loss({last}, target)")
    elif sink == "cross_entropy":
        extra_sig = ", labels"
        body.append(f"        return F.cross_entropy({last}.flatten(0, 1), labels)")
    src = ["class Prog(nn.Module):", "    def __init__(self):", "        super().__init__()"]
    src += ["        " + ln for ln in init] or ["        pass"]
    src += [f"    def forward(self, {sig}{extra_sig}):"] + body
    return "\n".join(src) + "\n"


_NS_CACHE: Dict[str, Any] = {}


def build(prog: Dict[str, Any], seed: int = 0) -> Tuple[Any, str]:
    """Instantiate the program's module (fresh class / code object) with seeded parameters."""
    import torch
    import torch.nn as nn
    import torch.nn.functional as F
    import unit_scaling as uu
    import unit_scaling.functional as U

    src = emit_source(prog)
    import sys
    import types

    modname = f"verif_prog_{abs(hash(emit_source(prog))) % 10**10}_{seed}"
    pm = types.ModuleType(modname)  # a real module, so Dynamo can locate functions defined in the program
    sys.modules[modname] = pm
    ns = pm.__dict__
    ns.update(dict(torch=torch, nn=nn, F=F, U=U, uu=uu, B=B, S=S, D=D, V=V))
    src = "def custom_gelu(x):\n    return F.gelu(x)\n\n\n" + src if "custom_gelu(" in src else src
    exec(compile(src, f"<prog-{abs(hash(src)) % 10**8}>", "exec"), ns)
    torch.manual_seed(1000 + seed)
    m = ns["Prog"]()
    if "custom_gelu" in ns:
        m.custom_gelu_fn = [ns["custom_gelu"]]  # (in a list: not registered as a method)
    if prog.get("root") == "sequential":
        m = nn.Sequential(m)
    elif prog.get("root") == "torch_sequential":
        # root and all layers are torch.nn classes (only module-variant instructions allowed)
        m = nn.Sequential(*list(m.children()))
    elif prog.get("root") == "bare":
        (m,) = list(m.children())
    if prog.get("dtype", "float32") != "float32":
        m = m.to(getattr(torch, prog["dtype"]))
    if prog.get("freeze_first"):
        ps = list(m.parameters())
        if ps:
            ps[0].requires_grad_(False)  # a frozen layer / frozen embedding
    return m, src


def inputs(prog: Dict[str, Any], seed: int = 0) -> Tuple[Any, ...]:
    import torch

    g = torch.Generator().manual_seed(77 + seed)
    dt = getattr(torch, prog.get("dtype", "float32"))
    if prog.get("first", "x") == "x":
        x = torch.randn(B, S, D, generator=g, dtype=torch.float64).to(dt)
        if prog.get("x_zeros"):
            x[:, ::2, ::3] = 0.0
        first: Any = x
    else:
        first = torch.randint(0, V, (B, S), generator=g)
    sink = prog.get("sink", "sum")
    if sink == "mse":
        return (first, torch.randn(B, S, D, generator=g, dtype=torch.float64).to(dt))
    if sink == "cross_entropy":
        return (first, torch.randint(0, D, (B * S,), generator=g))
    return (first,)


# --------------------------------------------------------------------------- reference interpreter
class Semantics:
    """Default: execute the original operations (plain PyTorch / explicit U.* calls)."""

    def fn(self, key: str) -> Callable[..., Any]:
        import torch
        import torch.nn.functional as F
        import unit_scaling.functional as U

        table = {
            "F.linear": F.linear, "U.linear": U.linear, "F.scaled_dot_product_attention": F.scaled_dot_product_attention,
            "U.scaled_dot_product_attention": U.scaled_dot_product_attention, "F.gelu": F.gelu, "F.silu": F.silu,
            "F.softmax": F.softmax, "F.dropout": F.dropout, "F.layer_norm": F.layer_norm, "torch.matmul": torch.matmul,
            "F.conv1d": F.conv1d, "torch.tanh": torch.tanh, "F.relu": F.relu, "F.embedding": F.embedding,
            "F.mse_loss": F.mse_loss, "F.cross_entropy": F.cross_entropy, "custom_gelu": F.gelu,
            "gate_softmax": lambda h: h * F.softmax(h, dim=-1),
            "hand_scaled": lambda h: U.scale_fwd(U.scale_bwd(h, 0.5) * 2.0, 0.25),
            "mul": lambda a, b: a * b, "div": lambda a, b: a / b, "neg": lambda a: -a,
            "torch.add": torch.add, "torch.neg": torch.neg, "torch.mul": torch.mul,
            "reshape": lambda h: h.reshape(B, S, 2, D // 2).reshape(B, S, D),
            "view_t": lambda h: h.transpose(0, 1).contiguous().transpose(0, 1),
            "rotate_half": lambda h: torch.cat([-h[..., D // 2:], h[..., : D // 2]], dim=-1),
            "cat_kw": lambda h: torch.cat(tensors=[h.reshape(B, S, D), -h], dim=-1)[..., :D],
            "stack_mean": lambda h: torch.stack([h, h * 0.5], dim=0).sum(0),
            "masked": lambda h: h * (h > 0).to(h.dtype),
            "cmp_two": lambda h: h * (h > torch.tanh(h)).to(h.dtype),
            "gather_argmax": lambda h: torch.gather(h, -1, h.argmax(-1).unsqueeze(-1).expand(B, S, D)),
            "add_ones": lambda h: h + torch.ones_like(h),
            "index_rows": lambda h: h[:, torch.arange(S - 1, -1, -1)],
            "with_zeros": lambda h, z: h * z,
            "add_view_both": lambda h: (lambda v: torch.add(v, other=v))(h.view(B, S, D)),
            "and_mask_both": lambda h: (lambda mk: h * torch.logical_and(mk, other=mk).to(h.dtype))(h > 0),
            "row_mean_gate": lambda h: h * h.mean(dim=(1, 2), keepdim=True),
            "inf_mask_softmax": lambda h, z: F.softmax(h.masked_fill(z, float("-inf")), dim=-1),
            "view_inplace": lambda h: (h * 2.0) + (h * 2.0)[:, 0].unsqueeze(1),
        }
        return table[key]

    # hooks -----------------------------------------------------------------
    def call(self, key: str, args: Tuple[Any, ...], kwargs: Dict[str, Any], ctx: Dict[str, Any]) -> Any:
        return self.fn(key)(*args, **kwargs)

    def add(self, a: Any, b: Any, ctx: Dict[str, Any]) -> Any:
        return a + b

    def residual(self, skip: Any, branch: Callable[[Any], Any], order: str, ctx: Dict[str, Any]) -> Any:
        r = branch(skip)
        return skip + r if order == "skip_first" else r + skip

    def observe(self, name: str, value: Any, ctx: Dict[str, Any]) -> Any:
        return value


class Interp:
    """Reference interpreter: executes the AST on module `m`'s parameters under `sem`."""

    def __init__(self, prog: Dict[str, Any], m: Any, sem: Semantics) -> None:
        import torch.nn as nn

        self.prog, self.sem = prog, sem
        self.m = m[0] if isinstance(m, nn.Sequential) and prog.get("root") == "sequential" else m
        if prog.get("root") in ("torch_sequential", "bare"):
            # rebuild an attribute view (lin0, act1, ...) over the torch.nn layers, in order
            layers = list(m.children()) if prog.get("root") == "torch_sequential" else [m]
            view = type("View", (), {})()
            cnt = itertools.count()
            for it, layer in zip(prog["items"], layers):
                i = next(cnt)
                attr = ALPHABET[it[1]]["init"][0].split("=")[0].strip().replace("self.", "").format(i=i)
                setattr(view, attr, layer)
            self.m = view

    def run(self, *inp: Any) -> Any:
        import torch

        prog, sem, m = self.prog, self.sem, self.m
        counter = itertools.count()
        items = prog["items"]
        any_res = any(contains_res(it) for it in items)
        last_res_top = 0 if any_res else -1

        def go(items: List[Any], h: Any, ctx: Dict[str, Any], cont_res: bool) -> Any:
            """cont_res: some residual add AFTER this sequence depends on it (data flow)"""
            for j, it in enumerate(items):
                later = cont_res or any(contains_res(x) for x in items[j + 1:])
                c = dict(ctx, after_last_residual=not later)
                if it[0] == "op":
                    e = ALPHABET[it[1]]
                    i = next(counter)
                    c["key"], c["index"] = it[1], i
                    args, kwargs = e["args"](h, m, i)
                    if e["fn"] in ("add", "iadd"):
                        h = sem.add(args[0], args[1], c)
                    else:
                        h = sem.call(e["fn"], args, kwargs, c)
                        if e.get("post"):
                            h = e["post"](h)
                    h = sem.observe(f"v{i}", h, c)
                elif it[0] == "par":
                    a = go(it[1], h, dict(c, depth=ctx["depth"] + 1), later)
                    b = go(it[2], h, dict(c, depth=ctx["depth"] + 1), later)
                    next(counter)
                    h = sem.add(a, b, dict(c, key="par"))
                else:
                    _, inner, order = it
                    c2 = dict(c, depth=ctx["depth"] + 1, after_last_residual=False, branch_keys=keys_of(inner))
                    h = sem.residual(h, lambda r, inner=inner, c2=c2: go(inner, r, c2, True), order, c2)
                    next(counter)
            return h

        ctx0: Dict[str, Any] = {"depth": 0, "after_last_residual": last_res_top < 0, "first": True}
        first = prog.get("first", "x")
        tail_ctx = dict(ctx0, after_last_residual=last_res_top < 0)
        if first == "x":
            h = inp[0]
        elif first == "emb":
            h = sem.call("F.embedding", (inp[0], m.emb.weight), {}, dict(tail_ctx, key="emb"))
        elif first == "emb_F":
            h = sem.call("F.embedding", (inp[0], m.ew), {}, dict(tail_ctx, key="emb"))
        else:
            a = sem.call("F.embedding", (inp[0], m.emb.weight), {}, dict(ctx0, key="emb", after_last_residual=last_res_top < 0))
            b = sem.call("F.embedding", (torch.arange(S), m.pos.weight), {}, dict(ctx0, key="pos", after_last_residual=last_res_top < 0))
            h = sem.add(a, b, dict(ctx0, key="emb+pos", after_last_residual=last_res_top < 0))
        h = sem.observe("h0", h, ctx0)
        h = go(items, h, ctx0, False)
        if prog.get("out_name"):
            h = h * 1.0
        end = dict(ctx0, after_last_residual=True, key="sink")
        sink = prog.get("sink", "sum")
        if sink == "sum":
            return h.sum()
        if sink == "tensor":
            return h
        if sink == "two_outputs":
            return h, h.mean()
        if sink == "mse":
            return sem.call("F.mse_loss", (h, inp[1]), {}, end)
        return sem.call("F.cross_entropy", (h.flatten(0, 1), inp[1]), {}, end)


# --------------------------------------------------------------------------- enumeration helpers
def chains(keys: List[str], depth: int) -> List[List[Any]]:
    """all op sequences of length 1..depth over `keys`"""
    out: List[List[Any]] = []
    for L in range(1, depth + 1):
        for combo in itertools.product(keys, repeat=L):
            out.append([["op", k] for k in combo])
    return out


def spines(spine: List[str], alts: List[str], d: int) -> List[List[Any]]:
    """the spine and every variant with <= d positions replaced by an alternative key"""
    out = [[["op", k] for k in spine]]
    n = len(spine)
    for nd in range(1, d + 1):
        for pos in itertools.combinations(range(n), nd):
            for repl in itertools.product(alts, repeat=nd):
                s = list(spine)
                changed = False
                for p, r in zip(pos, repl):
                    if s[p] != r:
                        s[p] = r
                        changed = True
                if changed:
                    out.append([["op", k] for k in s])
    seen, uniq = set(), []
    for o in out:
        key = repr(o)
        if key not in seen:
            seen.add(key)
            uniq.append(o)
    return uniq


# --------------------------------------------------------------------------- AST -> fx.Graph emitter
def to_fx(prog: Dict[str, Any], m: Any) -> Any:
    """Hand-built FX graph of the program (tier A): parameters are get_attr nodes, every
    F.* / U.* call of the alphabet is ONE call_function node whose target is the public
    function object (unit-scaled ops stay leaf calls, as after unit_scale()), everything else
    is recorded through torch.fx proxies.  No global patching (unlike fx autowrap)."""
    import torch
    import torch.nn as nn
    from torch import fx

    graph = fx.Graph()
    tracer = fx.proxy.GraphAppendingTracer(graph)
    root = m[0] if isinstance(m, nn.Sequential) and prog.get("root") == "sequential" else m
    prefix = "0." if root is not m else ""

    class PView:
        def __init__(self, mod: Any, path: str) -> None:
            object.__setattr__(self, "_mod", mod)
            object.__setattr__(self, "_path", path)

        def __getattr__(self, name: str) -> Any:
            val = getattr(self._mod, name)
            path = f"{self._path}{name}"
            if isinstance(val, torch.Tensor):
                return fx.Proxy(graph.get_attr(prefix + path), tracer)
            if isinstance(val, nn.Module):
                return PView(val, path + ".")
            return val

    base = Semantics()

    class ProxySemantics(Semantics):
        def call(self, key: str, args: Tuple[Any, ...], kwargs: Dict[str, Any], ctx: Dict[str, Any]) -> Any:
            fn = base.fn(key)
            if key.startswith(("F.", "U.")) or key == "torch.matmul":
                return tracer.create_proxy("call_function", fn, args, kwargs)
            return fn(*args, **kwargs)

    import inspect

    names = list(inspect.signature(root.forward).parameters)
    inputs_ = [fx.Proxy(graph.placeholder(n), tracer) for n in names]
    out = Interp(dict(prog, root="container"), PView(root, ""), ProxySemantics()).run(*inputs_)
    graph.output(out.node if isinstance(out, fx.Proxy) else tuple(o.node for o in out))
    graph.lint()
    return fx.GraphModule(m, graph)
