"""Reference semantics for the transform checks (hand-written counterparts of the graph
transforms), used with models.programs.Interp.  Nothing here calls the library's
transform code; quantisation uses FPFormat.quantise (decided separately by C13/C14) of the
caller's own format objects, and unit scaling uses the public unit_scaling.functional ops."""

from __future__ import annotations

from typing import Any, Callable, Dict, List, Tuple

from models.programs import Semantics

QUANT_OPERANDS = {
    "F.linear": ("input", "weight"),
    "U.linear": ("input", "weight"),
    "F.scaled_dot_product_attention": ("query", "key", "value"),
    "U.scaled_dot_product_attention": ("query", "key", "value"),
}


def st_fwd(fmt: Any, x: Any) -> Any:
    """straight-through: quantise the value, pass the gradient unchanged"""
    import torch

    class _F(torch.autograd.Function):
        @staticmethod
        def forward(ctx: Any, t: Any) -> Any:
            return fmt.quantise(t)

        @staticmethod
        def backward(ctx: Any, g: Any) -> Any:
            return g

    return _F.apply(x)


def st_bwd(fmt: Any, x: Any) -> Any:
    """identity on the value, quantise the gradient"""
    import torch

    class _B(torch.autograd.Function):
        @staticmethod
        def forward(ctx: Any, t: Any) -> Any:
            return t.view_as(t)

        @staticmethod
        def backward(ctx: Any, g: Any) -> Any:
            return fmt.quantise(g)

    return _B.apply(x)


def pinned_randint(low: int, high: int, size: Any, **kw: Any) -> Any:
    """Order-independent replacement for torch.randint: a fixed function of (high, shape)."""
    import torch

    n = 1
    for s in size:
        n *= int(s)
    idx = torch.arange(n, dtype=torch.int64)
    vals = (idx * 2654435761 + 40503 * (n % 977) + 12345) % max(int(high), 1)
    return vals.reshape(tuple(size)).to(kw.get("dtype", torch.int64))


class QuantSemantics(Semantics):
    def __init__(self, fwd: Any, bwd: Any) -> None:
        self.fwd, self.bwd = fwd, bwd
        self.quantised = 0

    def call(self, key: str, args: Tuple[Any, ...], kwargs: Dict[str, Any], ctx: Dict[str, Any]) -> Any:
        if key in QUANT_OPERANDS:
            names = QUANT_OPERANDS[key]
            a, k = list(args), dict(kwargs)
            for i, nm in enumerate(names):
                if i < len(a):
                    a[i] = st_fwd(self.fwd, a[i])
                elif nm in k:
                    k[nm] = st_fwd(self.fwd, k[nm])
            self.quantised += 1
            return st_bwd(self.bwd, self.fn(key)(*a, **k))
        return self.fn(key)(*args, **kwargs)


TORCH_TO_UNIT = {
    "F.linear": "linear", "F.gelu": "gelu", "F.silu": "silu", "F.softmax": "softmax", "F.dropout": "dropout",
    "F.layer_norm": "layer_norm", "torch.matmul": "matmul", "F.conv1d": "conv1d", "F.embedding": "embedding",
    "F.scaled_dot_product_attention": "scaled_dot_product_attention", "F.mse_loss": "mse_loss",
    "F.cross_entropy": "cross_entropy",
}
HAS_CONSTRAINT = {"linear", "gelu", "silu", "softmax", "matmul", "conv1d"}
ATTENTION_KEYS = ("softmax", "sdpa", "usdpa", "gate_softmax")


class UnitScaleSemantics(Semantics):
    """The User-Guide recipe applied literally."""

    def __init__(self, replace: Dict[str, Callable[..., Any]] = {}) -> None:
        self.replace = replace
        self.plan: List[str] = []

    def call(self, key: str, args: Tuple[Any, ...], kwargs: Dict[str, Any], ctx: Dict[str, Any]) -> Any:
        import unit_scaling.functional as U

        unconstrained = ctx.get("after_last_residual", False)
        if key == "custom_gelu" and key not in self.replace:
            key = "F.gelu"  # a user function that is not replaced is traced into: it is just F.gelu
        if key in self.replace:
            import inspect

            fn = self.replace[key]
            kw = dict(kwargs)
            if unconstrained and "constraint" in inspect.signature(fn).parameters:
                kw["constraint"] = None
            self.plan.append(f"custom:{key}")
            return fn(*args, **kw)
        if key == "gate_softmax":
            (h,) = args
            kw = {"constraint": None} if unconstrained else {}
            self.plan.append("U.softmax(gate)")
            return h * U.softmax(h, dim=-1, **kw)
        if key in TORCH_TO_UNIT:
            name = TORCH_TO_UNIT[key]
            fn = getattr(U, name)
            kw = dict(kwargs)
            if name in HAS_CONSTRAINT and unconstrained:
                kw["constraint"] = None
            self.plan.append(f"U.{name}" + (":unconstrained" if kw.get("constraint", 0) is None else ""))
            return fn(*args, **kw)
        if key.startswith("U."):
            # already unit-scaled ops are kept; ops with no later residual add are unconstrained
            import inspect

            fn = self.fn(key)
            kw = dict(kwargs)
            if unconstrained and "constraint" in inspect.signature(fn).parameters:
                ba = inspect.signature(fn).bind_partial(*args, **kwargs)
                if "constraint" in ba.arguments and "constraint" not in kwargs:
                    # positional constraint: rewrite as keyword None
                    names = list(inspect.signature(fn).parameters)
                    pos = names.index("constraint")
                    args = tuple(a for j, a in enumerate(args) if j != pos)
                kw["constraint"] = None
            self.plan.append(key + (":unconstrained" if unconstrained else ""))
            return fn(*args, **kw)
        self.plan.append(f"keep:{key}")
        return self.fn(key)(*args, **kwargs)

    def add(self, a: Any, b: Any, ctx: Dict[str, Any]) -> Any:
        import unit_scaling.functional as U

        self.plan.append("U.add:unconstrained")
        return U.add(a, b, constraint=None)

    def residual(self, skip: Any, branch: Callable[[Any], Any], order: str, ctx: Dict[str, Any]) -> Any:
        import unit_scaling.functional as U

        keys = ctx.get("branch_keys", [])
        tau = 0.01 if any(k.split(":")[0] in ATTENTION_KEYS for k in keys) else 0.5
        self.plan.append(f"residual:tau={tau}")
        r, s = U.residual_split(skip, tau)
        return U.residual_add(branch(r), s, tau)


class RecordingSemantics(Semantics):
    """Plain execution that records every float intermediate (retain_grad) for C18."""

    def __init__(self) -> None:
        self.values: List[Tuple[str, Any]] = []

    def observe(self, name: str, value: Any, ctx: Dict[str, Any]) -> Any:
        import torch

        if isinstance(value, torch.Tensor) and value.is_floating_point() and value.requires_grad:
            value.retain_grad()
        self.values.append((name, value))
        return value
