"""Helpers shared by C18 / C19: run a generated program under track_scales and, independently,
under a stock torch.fx.Interpreter that records every intermediate (retain_grad)."""

from __future__ import annotations

from typing import Any, Dict, List, Optional, Tuple


def stats(t: Any) -> Dict[str, float]:
    """The six statistics of the statement, recomputed from a tensor."""
    a = t.detach().abs()
    return {
        "mean_abs": a.mean().item(),
        "abs_mean": t.detach().mean().abs().item(),
        "std": t.detach().std().item(),
        "abs_max": a.max().item(),
        "abs_min": a.min().item(),
        "numel": t.numel(),
    }


def run_plain(m: Any, inp: Tuple[Any, ...], backward: Any) -> Tuple[Any, Dict[str, Any]]:
    """backward: False | True | "double" (gradient of the squared input gradient: create_graph=True, then a
    second differentiation through the first backward pass)"""
    import torch

    args = [a.clone().requires_grad_(True) if a.is_floating_point() and i == 0 else a.clone() for i, a in enumerate(inp)]
    y = m(*args)
    outs = y if isinstance(y, tuple) else (y,)
    grads: Dict[str, Any] = {}
    if backward == "double":
        loss = sum((o if o.dim() == 0 else (o * torch.linspace(-1, 1, o.numel(), dtype=o.dtype).reshape(o.shape)).sum()) for o in outs)
        ps = [p for p in m.parameters() if p.requires_grad]
        wrt = ([args[0]] if args[0].is_floating_point() else []) + ps
        g1 = torch.autograd.grad(loss, wrt, create_graph=True, allow_unused=True)
        pen = sum((g * g).sum() for g in g1 if g is not None)
        g2 = torch.autograd.grad(pen, wrt, allow_unused=True) if isinstance(pen, torch.Tensor) and pen.requires_grad else [None] * len(wrt)
        for j, (a, b) in enumerate(zip(g1, g2)):
            grads[f"first{j}"] = None if a is None else a.detach().clone()
            grads[f"second{j}"] = None if b is None else b.detach().clone()
    elif backward:
        loss = sum((o if o.dim() == 0 else (o * torch.linspace(-1, 1, o.numel(), dtype=o.dtype).reshape(o.shape)).sum()) for o in outs)
        if loss.requires_grad:  # (nothing to differentiate when every parameter is frozen and the input is integer)
            loss.backward()
        grads = {str(j): (p.grad.clone() if p.grad is not None else None) for j, p in enumerate(m.parameters())}
        if args[0].is_floating_point():
            grads["<input>"] = None if args[0].grad is None else args[0].grad.clone()
    return tuple(o.detach().clone() for o in outs), grads


def track(prog: Dict[str, Any], seed: int, backward: bool = True, calls: Optional[List[str]] = None,
          tier_a: bool = False) -> Dict[str, Any]:
    """Runs the program (a) plain, (b) under track_scales, (c) under an independent recording
    interpreter of the graph Dynamo captured.  Returns everything the oracles need."""
    import copy

    import torch
    import torch._dynamo
    from torch.fx import Interpreter

    from models.programs import build, inputs
    from unit_scaling.transforms import track_scales

    m, src = build(prog, seed)
    inp = inputs(prog, seed)
    plain = copy.deepcopy(m)
    y_plain, g_plain = run_plain(plain, inp, backward)
    if calls and calls[-1].startswith("dd"):
        try:  # is the un-instrumented program twice differentiable at all?
            run_plain(copy.deepcopy(m), inp, "double")
        except RuntimeError as e:
            return {"skipped": f"plain module not twice differentiable: {str(e)[:60]}"}
    captured: List[Any] = []
    ex_inputs: List[Any] = []
    if tier_a:
        # tier A: the library's tracking backend called directly on an FX graph emitted from the AST
        import torch.nn as nn

        from models.programs import to_fx

        tm = copy.deepcopy(m)
        backend = track_scales(nn.Sequential()).backends[-1]
        interp = backend(to_fx(prog, tm), [])

        class _T:
            def parameters(self) -> Any:
                return tm.parameters()

            def __call__(self, *a: Any) -> Any:
                return interp(*a)

            def scales_graph(self) -> Any:
                return backend.graph

        t: Any = _T()
        captured.append(to_fx(prog, copy.deepcopy(m)))
        ex_inputs.append([a.clone().requires_grad_(True) if a.is_floating_point() and i == 0 else a.clone()
                          for i, a in enumerate(inp)])
    else:
        t = track_scales(m)
        t.backends.insert(0, lambda gm, ex: (captured.append(gm), ex_inputs.append(list(ex)), gm)[-1])
        torch._dynamo.reset()
        if calls and "other" in calls:
            # another tracked module is created and used in between (its graph / metrics are its own)
            oprog = {"items": [["op", "linear:nn"], ["op", "tanh"]], "first": "x", "sink": "sum"}
            om, _ = build(oprog, seed + 5)
            other = track_scales(om)
            calls = [c for c in calls if c != "other"]
            run_plain(t, inp, calls[0] == "fb")
            run_plain(other, inputs(oprog, seed), True)
            if other.scales_graph() is t.scales_graph():
                raise AssertionError("two tracked modules share one scales graph")
    import dataclasses

    history = []
    modes = calls or (["fb"] if backward else ["f"])

    def bmode(mode: str) -> Any:
        return "double" if mode.startswith("dd") else mode.startswith("fb")

    updated = False
    for mode in modes:
        if mode == "upd":
            # the weights are rewritten through `.data` between two calls (no autograd version bump)
            for mod_ in (t, plain):
                for j, p_ in enumerate(mod_.parameters()):
                    p_.data.mul_(1.5).add_(0.25 * (j + 1))
            updated = True
            continue
        if mode == "inspect":
            # the user looks at the graph between two calls with the COPYING helpers: purely observational
            from unit_scaling.transforms import prune_non_float_tensors, prune_same_scale_tensors

            gi = t.scales_graph()
            prune_same_scale_tensors(prune_non_float_tensors(gi))
            prune_same_scale_tensors(gi, 2.0**-2)
            continue
        for p in t.parameters():
            p.grad = None
        if prog.get("flag_tail") and not tier_a:
            t.extra = not mode.endswith("-")  # flipping the switch forces a recompile (guard on the attribute)
        y_t, g_t = run_plain(t, inp, bmode(mode))
        graph = t.scales_graph()
        snap = {}
        for n in graph.nodes:
            mt = n.meta.get("metrics")
            if mt is not None:
                snap[n.name] = (dataclasses.replace(mt.fwd), None if mt.bwd is None else dataclasses.replace(mt.bwd))
        history.append((mode, snap))
    backward = modes[-1].startswith("fb")
    if updated and not ((prog.get("flag_tail") and not tier_a) or modes[-1].startswith("dd")):
        for p in plain.parameters():
            p.grad = None
        y_plain, g_plain = run_plain(plain, inp, bmode(modes[-1]))
    if (prog.get("flag_tail") and not tier_a) or modes[-1].startswith("dd"):
        # the un-instrumented run of the LAST call's program
        if modes[-1].startswith("dd"):
            # second-order gradients through custom autograd Functions differ between eager PyTorch and ANY
            # TorchDynamo-captured run (also with an identity backend): the un-instrumented twin for this mode
            # is the same module captured with an identity graph transform
            from unit_scaling.transforms.utils import apply_transform

            plain = apply_transform(plain, lambda gm_, ex_: gm_)
            torch._dynamo.reset()
        else:
            plain.extra = not modes[-1].endswith("-")
        for p in plain.parameters():
            p.grad = None
        y_plain, g_plain = run_plain(plain, inp, bmode(modes[-1]))
    rec: Dict[str, Any] = {}
    if captured:
        # the graph of the latest compilation (the flag histories end with a call that recompiles)
        gm = captured[-1] if prog.get("flag_tail") else captured[0]

        class Snap:
            """value of a node output AT THE TIME it was produced + the total gradient that reached it"""

            def __init__(self, out: Any) -> None:
                self.value = out.detach().clone()
                self.grad: Any = None
                if out.requires_grad:
                    # a hook registered now observes the gradient w.r.t. this version of the
                    # tensor, even if it is modified in place later
                    out.register_hook(self._set)

            def _set(self, g: Any) -> None:
                self.grad = g.detach().clone()

        class Rec(Interpreter):
            def run_node(self, n: Any) -> Any:
                out = super().run_node(n)
                if isinstance(out, torch.Tensor) and out.is_floating_point():
                    rec[n.name] = Snap(out)
                elif n.op != "output":
                    rec[n.name] = out
                return out

        # Dynamo hands the backend the real placeholder tensors (parameters, buffers, inputs):
        # the independent run gets detached copies of exactly those values
        vals = [e.detach().clone().requires_grad_(e.requires_grad) if isinstance(e, torch.Tensor) and e.is_floating_point()
                else (e.clone() if isinstance(e, torch.Tensor) else e) for e in (ex_inputs[-1] if prog.get("flag_tail") else ex_inputs[0])]
        outs = Rec(gm).run(*vals)
        outs = outs if isinstance(outs, (tuple, list)) else (outs,)
        if backward:
            fl = [o for o in outs if isinstance(o, torch.Tensor)]
            loss = sum((o if o.dim() == 0 else (o * torch.linspace(-1, 1, o.numel(), dtype=o.dtype).reshape(o.shape)).sum()) for o in fl)
            if loss.requires_grad:
                loss.backward()
    flags = None
    if not tier_a:
        flags = {"params": [(p.requires_grad, q.requires_grad) for p, q in zip(plain.parameters(), t.parameters())],
                 "buffers": [b.requires_grad for b in t.buffers()]}
    return {"flags": flags, "src": src, "m": m, "t": t, "graph": graph, "captured": captured, "y_plain": y_plain, "g_plain": g_plain,
            "y_t": y_t, "g_t": g_t, "rec": rec, "history": history}


