#!/bin/bash
# Offline setup: nothing to build (pure Python); verify the toolchain the checks rely on.
set -e
cd "$(dirname "${BASH_SOURCE[0]}")"
/venv/bin/python - <<'PY'
import sys
sys.path.insert(0, "/repo")
import torch, networkx, unit_scaling
assert unit_scaling.__file__.startswith("/repo/"), unit_scaling.__file__
print("torch", torch.__version__, "unit_scaling from", unit_scaling.__file__)
PY
python3-vt - <<'PY'
import json, jsonschema
man = json.load(open("MANIFEST.json"))
jsonschema.validate(man, json.load(open("tools/MANIFEST.schema.json")))
print("MANIFEST.json valid;", len(man["checks"]), "checks")
PY
mkdir -p evidence replays
echo setup-ok
