#!/bin/bash
# tools/confirm_seed.sh <PROP> <mN> : independently confirm a candidate seeded defect in a private
# scratch worktree (demo fails with it / passes without it; the repository's suite still passes),
# then store it under /verif/seeded/<PROP>-<mN>/ . The worktree is removed afterwards.
set -u
P="$1"; M="$2"; SRC="/tmp/mut/$P/$M"; WT="/tmp/wt/confirm_${P}_${M}"; OUT="/verif/seeded/${P}-${M}"
BASE=$(git -C /repo rev-parse HEAD)
git -C /repo worktree add -q --detach "$WT" "$BASE" || exit 3
cd "$WT"
run_demo() { ( cd "$WT" && PYTHONPATH="$WT" timeout 900 /venv/bin/python "$SRC/demo.py" >/tmp/wt/demo_${P}_${M}.log 2>&1; echo $? ); }
DEMO_CLEAN=$(run_demo)
git apply "$SRC/patch.diff" || { echo "patch does not apply"; git -C /repo worktree remove --force "$WT"; exit 3; }
DEMO_MUT=$(run_demo)
DEMO_MSG=$(tail -3 /tmp/wt/demo_${P}_${M}.log | tr '\n' ' ' | cut -c1-400)
PYTHONPATH="$WT" /venv/bin/python -m pytest -q -p no:cacheprovider --timeout=900 -x --deselect unit_scaling/tests/test_analysis.py::test_create_batch --deselect unit_scaling/tests/test_analysis.py::test_example_batch --deselect unit_scaling/tests/test_analysis.py::test_example_seqs --deselect unit_scaling/tests/test_analysis.py::test_visualiser unit_scaling/tests > /tmp/wt/suite_${P}_${M}.log 2>&1
SUITE_RC=$?
SUITE_LINE=$(tail -1 /tmp/wt/suite_${P}_${M}.log)
cd /; git -C /repo worktree remove --force "$WT"
mkdir -p "$OUT"; cp "$SRC/patch.diff" "$SRC/demo.py" "$OUT/"; cp "$SRC/notes.md" "$OUT/notes.md" 2>/dev/null
/venv/bin/python - "$P" "$M" "$BASE" "$DEMO_CLEAN" "$DEMO_MUT" "$SUITE_RC" "$SUITE_LINE" "$DEMO_MSG" <<'PY'
import json, sys
P, M, base, dc, dm, src, sline, dmsg = sys.argv[1:9]
meta = {
  "property": P[:3], "id": f"{P}-{M}", "base_commit": base, "author": "independent sub-agent (saw only the property text)",
  "confirmed": {"demo_exit_clean_tree": int(dc), "demo_exit_with_patch": int(dm), "demo_tail_with_patch": dmsg,
                "suite_exit_with_patch (4 offline network tests deselected)": int(src), "suite_summary": sline,
                "commands": ["git apply patch.diff (scratch worktree under /tmp/wt)", "PYTHONPATH=<wt> /venv/bin/python demo.py",
                             "PYTHONPATH=<wt> /venv/bin/python -m pytest -q -p no:cacheprovider --timeout=900 -x unit_scaling/tests (4 always-failing offline tests deselected)"]},
  "valid": int(dc) == 0 and int(dm) != 0 and int(src) == 0,
  "needs_to_manifest": "see notes.md",
}
json.dump(meta, open(f"/verif/seeded/{P}-{M}/meta.json", "w"), indent=1)
print(P, M, "valid" if meta["valid"] else "INVALID", dc, dm, src, sline)
PY
