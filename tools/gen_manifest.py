"""Regenerates /verif/MANIFEST.json from the table below (run with any python3)."""
import json
import os

HERE = os.path.dirname(os.path.dirname(os.path.abspath(__file__)))

# id -> (technique, level text, level note, design section)
CHECKS = {
    "C07": (
        "exhaustive walk of (depth, mult, ratio, index) against an exact rational model, "
        "every model state replayed on the implementation",
        "All depths 1..64 (quick) / 1..256 (thorough) x 81 rational (mult, ratio) pairs x every "
        "branch index are enumerated; an exact Fraction model derived from the balance "
        "requirements gives the unique tau^2 per state, compared with the implementation to "
        "1e-13, and the implementation's own taus are pushed through the residual recurrence "
        "in 60-digit arithmetic to check the five invariants; TransformerDecoder wiring is "
        "enumerated for L=1..32/128 and three rules.",
        "mult/ratio on a 9x9 rational grid (continuum not enumerated); Python Fraction/Decimal "
        "arithmetic trusted.",
        "DESIGN.md#c07",
    ),
    "C10": (
        "exhaustive lattice walk of (rule, tag, depth, shape) on meta-device parameters and of "
        "(entry point, container form, lr kind, lr, allow flag) against an exact rational LR table",
        "Every 1-D length 1..512 (4096 thorough), every 2-D/3-D shape over a 13-value dimension "
        "alphabet, 4 tags, 7 depths (all 1..1024 thorough), 3 rules, plus the full product of 6 "
        "entry points (raw scaled_parameters, Adam, AdamW, SGD with both readout settings) x 6 "
        "container forms x float/float32-tensor/float64-tensor lr x 5 lr values x allow flag, and "
        "all error clauses; the oracle is an independent table of squared factors in Fractions.",
        "dimension alphabet rather than all of 1..4096^3; lr values on a 5-point grid.",
        "DESIGN.md#c10",
    ),
    "C11": (
        "exhaustive enumeration of group-list structures x option bits, then a 3-step optimizer "
        "history with zero gradients, against a list/closed-form reference model",
        "All group lists with 1-2 groups (1-3 thorough) over the full product of per-group bits "
        "(1-2 params, own lr, own weight_decay, extra keys), larger lists with <=2 deviating bits, "
        "x container forms (list/tuple/generator/one-shot iterators inside groups) x float/tensor/"
        "shared-tensor lr x weight_decay x tagged/untagged mix x independent flag x {raw, SGD, "
        "AdamW}; identity/order/keys/no-mutation/no-aliasing are checked and every parameter is "
        "compared with (1-wd)^n after each of 3 steps to 1e-12.",
        "one seeded value draw per case; SGD with momentum 0.",
        "DESIGN.md#c11",
    ),
    "C13": (
        "complete sweep of the float32 input space (2^32 bit patterns) for E4M3/E5M2 plus "
        "exhaustive structured input sets for all 168 formats, against an exact-arithmetic value-set model",
        "thorough: every float32 bit pattern for E4M3 and E5M2 (monotonicity on every successor "
        "pair); both tiers: all formats E2..8 x M0..23 on every representable value (E+M<=12) or "
        "per-binade boundary values, every midpoint, +-4 float32 ulps around each, seeded mantissas "
        "for every float32 exponent, +-0/+-inf, tensor ranks 0-3, empty and non-contiguous "
        "layouts, float64/bfloat16/float16 dtypes; oracle = independent format model in float64.",
        "quick tier strides the 2^32 sweep by 64; formats other than the FP8 pair use structured "
        "sets, not all patterns; ties may go either way (statement does not fix the direction).",
        "DESIGN.md#c13",
    ),
    "C14": (
        "exhaustive enumeration of the random draw (all 2^srbits answers of the intercepted "
        "torch.randint) per input, probabilities counted exactly against a rational model",
        "torch.randint is substituted from the harness by an enumerator, so for every input of the "
        "structured set all 2^srbits executions of the random choice are run (up to 2^16 quick / "
        "2^20 thorough draws per input); 66 formats x srbits in {1,2,3,5,8,12}/1..12 and the "
        "default; counts must equal the exact fractional position (all bits) or lie within "
        "2^-(srbits+1) (fewer bits); independence: one draw requested per element.",
        "structured + seeded inputs per format; format-subnormal inputs carry the 2^(M-24) "
        "float32-division allowance.",
        "DESIGN.md#c14",
    ),
    "C01": (
        "deviation-bounded exhaustive walk of each function's configuration lattice, plus "
        "exhaustive value assignments on tiny shapes, against the PyTorch reference op",
        "For the 16 public functions every configuration with <=2 (quick) / <=3 (thorough) coordinates "
        "deviating from the default (batch rank 0-3, sizes, dtype, mult, p, training, dim, eps, "
        "stride/padding/dilation/groups, is_causal, attn_mask, reduction, ignore_index, padding_idx, "
        "max_norm, approximate, every constraint name) is executed with two value draws against the "
        "torch reference; a least-squares scalar is fitted in float64 and must be positive, "
        "residual-free, equal across draws and dtypes, exactly 1 for losses/norms/embedding; shape, "
        "dtype, input immutability and rejection of unsupported arguments are checked; on tiny shapes "
        "ALL assignments over a 5-value alphabet are run.",
        "tensor values are two seeded draws except on the tiny shapes; low-precision dtypes use "
        "dtype-sized tolerances.",
        "DESIGN.md#c01",
    ),
    "C02": (
        "same lattice walk as C01 with autograd of the PyTorch reference as oracle; exhaustive "
        "(factor x shape x dtype) product for the two scaling primitives",
        "Same configuration lattices as C01; for every differentiable input and 2 value draws x 2 "
        "upstream-gradient draws the gradient must equal the reference gradient (sum-reduced for "
        "mean losses) times one positive scalar, equal across all four draws; scale_fwd/scale_bwd "
        "are run over 10 factors (negative and zero included) x 6 shapes x 4 dtypes with the "
        "untouched pass compared bit-for-bit.",
        "two seeded draws per configuration for values and upstream gradients.",
        "DESIGN.md#c02",
    ),
    "C03": (
        "full-product walk of each op's shape lattice; oracle scalar^2 x measured term count = 1 "
        "with term counts measured on the PyTorch reference with all-ones operands",
        "Full product of shape coordinates (sizes {1,2,3,5,8}, 6 batch shapes, conv kernel/stride/"
        "dilation/groups, 4 broadcast patterns, vocab/batch, p, tau) for linear, readout, matmul, "
        "conv1d, add, residual, embedding, dropout, mse, norm gains/biases: 6.3k configurations quick; "
        "the fitted forward/backward scalars squared times the measured number of summed terms must "
        "be 1 to 1e-11.",
        "fitted scalars taken from one value draw (data independence is C01/C02).",
        "DESIGN.md#c03",
    ),
    "C05": (
        "lattice walk over (op, constraint name, shape) comparing fitted scales with an independent "
        "implementation of the rule applied to the unconstrained scales; exhaustive tuples for the rule functions",
        "Every op taking a constraint x every valid name x configurations with <=2/3 deviations: the "
        "forward scalar and every constrained gradient scalar must equal my own rule(s0, c0...) to "
        "1e-10, weight/bias scalars unchanged, gradcheck passes on constrained inputs; fixed-constraint "
        "ops have equal forward/backward scalars; 8 unknown names x 8 ops must raise ValueError; the rule "
        "functions are run on all 7^1..7^4 and 3^5, 3^6 tuples (value, symmetry, range, h<=g<=a).",
        "one value draw per probe; scales alphabet spans [1e-6,1e6] on 7 points.",
        "DESIGN.md#c05",
    ),
    "C06": (
        "exhaustive enumeration of residual structures (ordered forests, sequential and nested) "
        "with all (tau, branch) labellings, against the closed form in plain float64 torch",
        "All forests with <=3 (quick) / <=4 (thorough) residual layers over a 3x3 (tau, branch) "
        "sub-alphabet, every single layer over 7 taus x 8 branch functions x 4 shapes, uniform stacks "
        "and nested chains of depth 4-8, each in split/add and residual_apply form: output and x.grad "
        "vs the recursive closed form (1e-11) and the gradient observed at every branch output "
        "bit-identical to that of the enclosing residual_add output.",
        "two seeded value draws per program; tau grid of 6 points in [1e-3,1e3].",
        "DESIGN.md#c06",
    ),
    "C04": (
        "exhaustive walk of log-grids over the stated hyperparameter ranges; expectations by "
        "Gauss-Hermite quadrature (elementwise) or fixed-seed Monte-Carlo of the implementation",
        "Every grid point of mult in [1/16,16] (65/129 points) for gelu exact/tanh, silu, silu_glu; "
        "softmax width x mult; attention seq x head x mult x causal x dropout (336 configurations); "
        "cross-entropy vocab x mult x reduction plus uniform logits; norm widths: the implementation's "
        "output std / RMS and autograd gradient RMS are evaluated and compared with the statement's "
        "thresholds. Weakest fit of the family: a grid over a continuum, Monte-Carlo expectations for "
        "the non-elementwise ops.",
        "continuum between grid points not enumerated (A2); Monte-Carlo sampling error < 0.5% "
        "against >= 4% margins.",
        "DESIGN.md#c04",
    ),
    "C08": (
        "full product of constructor-option domains per module x train/eval x input shapes, "
        "against the functional form with the constructor's options and the torch.nn twin",
        "9.4k configurations: every simple module over the full product of its option domains "
        "(Conv1d alone 4k: kernel, stride, padding, 4 padding modes, dilation, groups, bias, 7 "
        "constraints) x train/eval: output and all gradients equal the functional call made with the "
        "options passed to the constructor (1e-12), shape equals the torch.nn twin loaded with the same "
        "state_dict and values are proportional; rejected options raise; fresh-construction "
        "statistics, tags and depth containers; MLP/MHSA/TransformerLayer/Decoder option products "
        "checked via spies on the functional calls and behavioural invariants (causality for every "
        "position, eval determinism, batch independence, parameter shapes).",
        "one seeded value draw per configuration; composite modules not compared against a "
        "re-implementation of their tensor layout.",
        "DESIGN.md#c08",
    ),
    "C09": (
        "stateless exhaustive enumeration of operation histories (depth 3/4) plus explicit-state "
        "BFS to fixpoint over a canonical state including implementation-hidden hook bits",
        "All 2955 (quick) / 41371 (thorough) sequences over 14 operations (deepcopy/pickle/"
        "torch.save of parameter and of module - continuing with the copy or with the original -, "
        "to(float64), half, load_state_dict, requires_grad toggle, simulate_fp8, unit_scale) from 12 initial (tag, depth) states are replayed on fresh "
        "objects and compared with a tuple reference model after every step (tags, values, dtype, "
        "requires_grad, Parameter-ness, optimizer lr scale); a BFS over (dtype, requires_grad, hook "
        "bits, transformed, holder class) reaches its fixpoint (18 states, depth 4).",
        "BFS abstraction drops tensor values; module-level pickling after a transform is impossible "
        "in Python (local closure) and counted as unrealisable.",
        "DESIGN.md#c09",
    ),
    "C12": (
        "full product walk of (layer, fan_in, fan_out, kernel, depth/container form, eta, "
        "optimizer, constraint) with exhaustive +-1 patterns for small fans",
        "27k configurations (Linear, LinearReadout, single-position Conv1d; fans up to 1000/4096; "
        "kernel 1-9; depth None/1/2/3/64 through three container forms; eta 1e-4..1; Adam/AdamW): "
        "after one optimizer step every output coordinate must have moved by exactly eta/sqrt(depth) "
        "(1e-9) against the upstream sign; all 2^fan_in x 2^fan_out sign patterns when fans <= 3.",
        "two seeded +-1 patterns for larger fans; eps=0, no weight decay, float64.",
        "DESIGN.md#c12",
    ),
    "C15": (
        "exhaustive enumeration of straight-line programs (depth 2/3 + deviation spines) run through "
        "simulate_format and real TorchDynamo, and through the backend on hand-built FX graphs; "
        "bit-exact comparison with a hand-quantised reference interpreter; random source owned",
        "1.9k programs quick: every 1- and 2-instruction program over 25 instruction kinds (linear with "
        "bias positional/keyword/absent, nn.Linear, U.linear forms, attention with mask positional/"
        "keyword/causal/dropout_p=0 in F. and U. form, neutral ops), single-deviation spines, residual "
        "shapes, torch.nn-only roots, x 4 format pairs (simulate_fp8, E4M3/E5M2 nearest, reduced-srbits "
        "stochastic with torch.randint pinned order-independently, lossless E8M23): outputs and every "
        "gradient bit-identical to the hand-written straight-through quantisation; lossless == "
        "untransformed; quantised node count; tier A calls the library backend on emitted FX graphs "
        "where U.linear/U.attention are leaf nodes.",
        "programs exhaustive only to the stated depth; FPFormat.quantise itself trusted (C13/C14).",
        "DESIGN.md#c15",
    ),
    "C16": (
        "exhaustive enumeration of well-nested block programs run through unit_scale() and real "
        "TorchDynamo, compared (float64) with a reference interpreter applying the User-Guide recipe",
        "3.2k programs quick (650 through unit_scale + real TorchDynamo, the rest through the unit-scaling "
        "backend on emitted FX graphs): every 1-instruction program over 34 kinds x first-instruction kinds "
        "(input, nn.Embedding, F.embedding, token+position sum) x sinks (sum, mse, cross_entropy, "
        "tensor), all 2-instruction programs over a 10-kind sub-alphabet, every single residual block "
        "shape in both operand orders, sequential and nested residual pairs, DAGs of two towers merged by a plain add, torch.nn-only roots, "
        "user-replacement precedence: outputs and all gradients equal the recipe (1e-11), weights "
        "re-initialised to w/std, biases zero, original untouched.",
        "well-nested programs only; float64; programs exhaustive to the stated depth.",
        "DESIGN.md#c16",
    ),
    "C17": (
        "complete enumeration of the allowed transform chains x orders x intermediate-call histories "
        "x repeated calls, with invariants, a hand-composed reference and a differential oracle",
        "For 6 module families and every subset of {unit_scale, one of 4 format simulations} optionally "
        "ended by track_scales / compile: all orders, all called/not-called patterns of the "
        "intermediate modules, 3 repeated final calls, re-trace histories (no_grad call, another "
        "module's TorchDynamo reset, new batch size) and every intermediate re-checked against a fresh chain prefix. Invariants: original state/outputs/gradients "
        "untouched, no gradient sent to the original, no shared storage along the chain, backend list "
        "has each transform once with unit scaling first, each backend runs once per trace, repeated "
        "calls identical; all orders and histories agree bit for bit and equal the hand-composed "
        "recipe-then-quantise reference.",
        "compile only chained where documented; one value draw per family.",
        "DESIGN.md#c17",
    ),
    "C18": (
        "exhaustive enumeration of programs (depth 2/3, fan-out, int/bool intermediates, in-place, "
        "multi-output) and call histories run through track_scales; independent recording interpreter",
        "1000 program/history cases quick (through track_scales + TorchDynamo and through the tracking "
        "backend on emitted FX graphs): outputs and gradients bit-identical to the un-instrumented "
        "module; every float node's six forward and backward statistics equal those recomputed by a "
        "stock torch.fx.Interpreter (+ gradient hooks) on the graph Dynamo captured; no backward "
        "metrics without gradient (also across fwd+bwd -> fwd-only call histories on the same module); "
        "non-float nodes not instrumented; analyse_module leaves parameters/gradients intact and "
        "annotates only real statistics. Known finding F9 (view + in-place on base) is reported as such.",
        "program depth bound; one value draw.",
        "DESIGN.md#c18",
    ),
    "C19": (
        "enumeration of tracked graphs x pruning helper x parameter (all target subsets of size <= 2) "
        "against an independent reference pruning that predicts node list and every argument slot",
        "280 tracked programs, obtained through the real API and on emitted FX graphs (list/keyword/nested tensor arguments, integer chains, masks, index tensors, views, "
        "negations, residual fan-out, multiple outputs) x {non-float, same-scale at 3 tolerances, "
        "every subset of distinct targets of size <= 2 and the full set, composition}: no exception, "
        "lint, surviving node list and order, every survivor's positional/keyword/nested arguments "
        "equal the original's with removed nodes contracted onto their single float input (or cut), "
        "input graph of the copying helpers unchanged.",
        "ambiguous readings of 'single float input' accept both outcomes; program family bounded.",
        "DESIGN.md#c19",
    ),
    "C20": (
        "lattice walk (default + all single-coordinate deviations) of every function, every module and "
        "all length-2 compositions, each compiled from a fresh code object and compared with eager",
        "450 compilations quick (aot_eager; inductor added in thorough), with call histories (cached "
        "function called again with new values / a new batch size): outputs and all gradients of "
        "the compiled function equal eager to float64 1e-12 / float32 2e-6 / bfloat16 2e-2, for all "
        "16 functions over their hyperparameter/constraint/shape/dtype deviations, 17 module "
        "configurations x 2 dtypes, 49+ compositions; the backend is observed to receive a graph; "
        "fx.symbolic_trace forward values equal eager.",
        "CPU only; one value draw per case.",
        "DESIGN.md#c20",
    ),
}

NOT_YET = {}


# coordinates added by the seeded-defect waves (appended to the level text of the check)
EXTRA = {
    "C01": "Also: ambient grad mode / default dtype / memory layout / value magnitude environments, every single deviation "
           "called all-positional (documented order), all-keyword and with ints for integral floats, unimplemented values of "
           "implemented options (reduction='none').",
    "C02": "Also: requires_grad patterns (one operand frozen at a time), call forms as in C01, dtype call histories in fresh "
           "interpreters; low-precision proportionality is skipped only where the float64 twin of the same reference shows the "
           "reference gradient itself is rounding noise. Integer / bool tensors through scale_fwd; one operand frozen under every named constraint. Hyperparameter call histories (dropout_p, mult, is_causal, p changed between calls) against the same call made first in a fresh interpreter.",
    "C03": "Also: one operand frozen at a time, padding rows, low-precision-first call histories in fresh interpreters.",
    "C04": "Also: cross-attention length pairs (output clause) and six factorisations of each normalised width. One-hot probability targets; float16 / bfloat16 softmax at the corners of the range. Causal / non-causal call histories of one shape in a fresh process. Cross-entropy with ignored (padding) targets, default and caller-chosen ignore_index.",
    "C05": "Also: module level - every module taking a constraint x every forward path (Conv1d padding modes) against its functional form. The rule in float16 / bfloat16; the forward value without autograd (no_grad, inference_mode, inputs without grad) bit-identical to the differentiated one; every unknown name used repeatedly in one fresh process. One constrained operand frozen at a time.",
    "C06": "Also: trainable / constant / detached / no_grad branches, a stream that does not require grad (branch parameter gradients "
           "against the closed form divided by the enclosing branch weights), float32 branches, low-precision call histories. float16 / bfloat16 / float32 streams. tau given as a Python int; evaluation under inference_mode / no_grad before training (fresh process).",
    "C07": "Also: taus after dtype casts / deep copies of the model, sweeps with temporary rule objects in a fresh process, residual dropout as a stack option. Decoder built with positional arguments in the documented order. Checkpoint histories: state_dict round trips, pickle, torch.save / load.",
    "C08": "Also: modules after deepcopy, pickle, state-dict rebuild, float()->double(), positional constructor arguments, shape as int; "
           "torch twin evaluated at the documented temperature. A fresh embedding has a zero padding row; a torch-twin or functional rejection of a configuration the module accepts is a violation. Depth containers built from prototype clones and copied once / twice. DepthModuleList built from generators / tuples / iterators.",
    "C09": "Also: an in-place write operation; every earlier object of a history keeps its values and its storage. track_scales in the operation alphabet (16 operations). Batches of short-lived parameters of one shape and varying tags through the optimizers in one fresh process (address reuse).",
    "C10": "Also: parameters sharing (tag, shape) but not depth inside one call. Generator-valued params inside an explicit group. Learning rate passed positionally or left at its default for the three optimizer classes.",
    "C11": "Also: frozen parameters, tied storage (distinct Parameter objects), zero-element parameters, second calls on the caller's groups. Groups whose parameters all share one scale. Mixed kinds: tensor group lr beside a float global lr and the converse.",
    "C12": "Also: layers inside blocks, containers of prototype clones, copies of copies, the same layer object repeated, parameters "
           "frozen when the optimizer is built, int / tensor learning rates. Unbatched (C, L) convolution inputs. Optimizers built with the library's default weight decay; dict groups mixing tagged and plain parameters. Optimizers built from module.parameters() generators, bare and inside a dict group.",
    "C13": "Also: format objects whose fields are reassigned after use (assign / copy+assign / replace); results never alias inputs, earlier results or buffers. Signed zeros: the sign bit of zero results, idempotence and odd symmetry compared bit-wise.",
    "C14": "Also: six memory layouts for the one-draw-per-element oracle, no_grad / inference_mode / requires-grad inputs, "
           "srbits / rounding-mode call histories in fresh interpreters, float16 / bfloat16 / float64 inputs. Saturation beyond +-max for every draw under four default dtypes and on format objects used before with other fields; results never alias inputs, earlier results or buffers. Tensors holding a single magnitude class (subnormal range only, normal range only, nothing below the smallest subnormal).",
    "C15": "Also: float64 / bfloat16 modules, every float32 exponent through the straight-through primitives, operands passed by keyword, "
           "two-format and nested-transform histories. 12-format sweeps on one model class in a fresh process; frozen / no-grad operands; nested transforms on torch.nn roots. Parameters updated between two calls (.data, no_grad in place, load_state_dict); the straight-through primitives on tensors with other consumers and applied twice.",
    "C16": "Also: every tensor operand by keyword inside residual branches, DAG towers, an earlier unit_scale(..., replace=) call in a fresh process. Trained (non-trivial) LayerNorm affine parameters; parameters / buffers of every layer other than Linear / Embedding bit-identical to the original.",
    "C17": "Also: a parameter frozen at transform time, intermediates trained in place between nestings, float64 / bfloat16 modules. compile after a deterministic simulation; a raising call followed by normal calls; modules that already hold gradients. Two live chains of one original with different formats used interleaved. A module family with a persistent=False buffer; no storage shared between any parameters or buffers of the chain.",
    "C18": "Also: recompilation to a smaller / larger graph, second-order differentiation, analyse_module(recurse_modules=False) with an "
           "annotation-completeness oracle, frozen parameters and buffers. Inspection with the copying pruning helpers between two calls. Weights rewritten through .data between two tracked calls. Intermediates containing -inf (masking before a softmax; inf / nan statistics compared exactly) and two-element intermediates.",
    "C19": "Also: scale ratios inside / outside the tolerance window, chains of non-float nodes, repeated operands. Detached input graphs; repeated calls on one graph object after in-place edits of the result / the input. Different targets sharing one __name__; step-wise drifting scale chains. Consumers that take one prunable node positionally and by keyword.",
    "C20": "Also: all pairs of hyperparameter deviations, one operand frozen at a time, plain fx tracing of every function configuration "
           "to 4 ulp and at width 256-4096, regions returning several scaled aliases. add broadcast patterns x constraints; attribute changes and frozen parameters on modules compiled with the library's own transform. An eager rejection of a configuration the PyTorch reference accepts is a violation, not a skip.",
}


def main() -> None:
    props = [json.loads(l) for l in open(os.path.join(HERE, "properties.jsonl"))]
    checks = []
    na = []
    for p in props:
        pid = p["id"]
        if pid in CHECKS:
            tech, text, note, ref = CHECKS[pid]
            if pid in EXTRA:
                text = text.rstrip() + " " + EXTRA[pid]
            checks.append(
                {
                    "property_id": pid,
                    "quick_cmd": f"./vcheck {pid} --tier quick",
                    "thorough_cmd": f"./vcheck {pid} --tier thorough",
                    "evidence_file": f"/verif/evidence/{pid}.json",
                    "replay_cmd_template": f"./vcheck {pid} --replay {{path}}",
                    "engine": "mc-explorer",
                    "level_claimed": {
                        "category": "model_checking",
                        "text": text,
                        "design_ref": ref,
                    },
                    "level_note": note,
                    "technique": tech,
                }
            )
        else:
            na.append(
                {
                    "property_id": pid,
                    "reason": NOT_YET.get(
                        pid,
                        "check not built yet in this revision (planned: bounded exhaustive "
                        "exploration, see DESIGN.md section 3); not a claim that model "
                        "checking cannot apply",
                    ),
                }
            )
    man = {
        "version": 1,
        "setup_cmd": "./setup.sh",
        "hooks": {
            "guard": "UNIT_SCALING_VERIF",
            "enable": "export UNIT_SCALING_VERIF=1 (set by ./vcheck); the library is pure "
            "Python so checks import /repo's working tree directly, no build step",
            "baseline_off_cmd": "cd /repo && env -u UNIT_SCALING_VERIF /venv/bin/python -m pytest "
            "-ra -q -p no:cacheprovider --timeout=900 --continue-on-collection-errors",
            "source_commits": [],
            "add_only": True,
        },
        "engines": [
            {
                "name": "mc-explorer",
                "path": "/verif/mc",
                "serves_properties": sorted(CHECKS),
                "kind_free_text": "hand-written explicit-state / bounded-exhaustive explorer in "
                "Python driving the real library against small reference models; 16 spawned "
                "workers, failing cases re-executed in a fresh process before being reported",
            }
        ],
        "checks": checks,
        "not_applicable": na,
        "notes": "See DESIGN.md. known_findings.json lists genuine defects (known / fixed).",
    }
    with open(os.path.join(HERE, "MANIFEST.json"), "w") as f:
        json.dump(man, f, indent=1)
    print(f"MANIFEST.json: {len(checks)} checks, {len(na)} not_applicable")


if __name__ == "__main__":
    main()
