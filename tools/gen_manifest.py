"""Regenerates /verif/MANIFEST.json from the table below (run with any python3)."""
import json
import os

HERE = os.path.dirname(os.path.dirname(os.path.abspath(__file__)))

# id -> (technique, level text, level note, design section)
CHECKS = {
    "C07": (
        "exhaustive walk of (depth, mult, ratio, index) against an exact rational model, "
        "every model state replayed on the implementation",
        "All depths 1..64 (quick) / 1..256 (thorough) x 81 rational (mult, ratio) pairs x every "
        "branch index are enumerated; an exact Fraction model derived from the balance "
        "requirements gives the unique tau^2 per state, compared with the implementation to "
        "1e-13, and the implementation's own taus are pushed through the residual recurrence "
        "in 60-digit arithmetic to check the five invariants; TransformerDecoder wiring is "
        "enumerated for L=1..32/128 and three rules.",
        "mult/ratio on a 9x9 rational grid (continuum not enumerated); Python Fraction/Decimal "
        "arithmetic trusted.",
        "DESIGN.md#c07",
    ),
}

NOT_YET = {}


def main() -> None:
    props = [json.loads(l) for l in open(os.path.join(HERE, "properties.jsonl"))]
    checks = []
    na = []
    for p in props:
        pid = p["id"]
        if pid in CHECKS:
            tech, text, note, ref = CHECKS[pid]
            checks.append(
                {
                    "property_id": pid,
                    "quick_cmd": f"./vcheck {pid} --tier quick",
                    "thorough_cmd": f"./vcheck {pid} --tier thorough",
                    "evidence_file": f"/verif/evidence/{pid}.json",
                    "replay_cmd_template": f"./vcheck {pid} --replay {{path}}",
                    "engine": "mc-explorer",
                    "level_claimed": {
                        "category": "model_checking",
                        "text": text,
                        "design_ref": ref,
                    },
                    "level_note": note,
                    "technique": tech,
                }
            )
        else:
            na.append(
                {
                    "property_id": pid,
                    "reason": NOT_YET.get(
                        pid,
                        "check not built yet in this revision (planned: bounded exhaustive "
                        "exploration, see DESIGN.md section 3); not a claim that model "
                        "checking cannot apply",
                    ),
                }
            )
    man = {
        "version": 1,
        "setup_cmd": "./setup.sh",
        "hooks": {
            "guard": "UNIT_SCALING_VERIF",
            "enable": "export UNIT_SCALING_VERIF=1 (set by ./vcheck); the library is pure "
            "Python so checks import /repo's working tree directly, no build step",
            "baseline_off_cmd": "cd /repo && env -u UNIT_SCALING_VERIF /venv/bin/python -m pytest "
            "-ra -q -p no:cacheprovider --timeout=900 --continue-on-collection-errors",
            "source_commits": [],
            "add_only": True,
        },
        "engines": [
            {
                "name": "mc-explorer",
                "path": "/verif/mc",
                "serves_properties": sorted(CHECKS),
                "kind_free_text": "hand-written explicit-state / bounded-exhaustive explorer in "
                "Python driving the real library against small reference models; 16 spawned "
                "workers, failing cases re-executed in a fresh process before being reported",
            }
        ],
        "checks": checks,
        "not_applicable": na,
        "notes": "See DESIGN.md. known_findings.json lists genuine defects (known / fixed).",
    }
    with open(os.path.join(HERE, "MANIFEST.json"), "w") as f:
        json.dump(man, f, indent=1)
    print(f"MANIFEST.json: {len(checks)} checks, {len(na)} not_applicable")


if __name__ == "__main__":
    main()
