#!/bin/bash
# tools/run_all.sh <tier> [ids...] : run checks sequentially, print one summary line each
TIER="${1:-quick}"; shift
IDS="${@:-C01 C02 C03 C04 C05 C06 C07 C08 C09 C10 C11 C12 C13 C14 C15 C16 C17 C18 C19 C20}"
cd "$(dirname "${BASH_SOURCE[0]}")/.."
for id in $IDS; do
  s=$(date +%s)
  out=$(./vcheck $id --tier $TIER 2>/dev/null); rc=$?
  e=$(date +%s)
  echo "$id rc=$rc wall=$((e-s))s :: $(echo "$out" | grep -c '^VIOLATION') violations :: $(echo "$out" | tail -1 | cut -c1-200)"
done
