#!/bin/bash
# tools/seeded_matrix.sh [ids...] : run each stored seeded defect against the check of its property
# in a scratch worktree (VERIF_REPO), print detected / MISSED / does-not-apply.
cd "$(dirname "${BASH_SOURCE[0]}")/.."
WT=${MATRIX_WT:-/tmp/wt/matrix}
git -C /repo worktree add -q --detach "$WT" HEAD 2>/dev/null || git -C "$WT" checkout -q --detach "$(git -C /repo rev-parse HEAD)"
for d in ${@:-$(ls seeded)}; do
  P=${d:0:3}
  git -C "$WT" checkout -q -- . ; git -C "$WT" checkout -q --detach "$(git -C /repo rev-parse HEAD)"
  if ! git -C "$WT" apply "$PWD/seeded/$d/patch.diff" 2>/dev/null; then echo "$d does-not-apply"; continue; fi
  out=$(VERIF_EVIDENCE_DIR=/tmp/wt/evidence_scratch VERIF_REPO="$WT" ./vcheck "$P" --tier quick 2>/dev/null); rc=$?
  n=$(echo "$out" | grep -c '^VIOLATION')
  if [ $rc -eq 1 ] && [ $n -gt 0 ]; then echo "$d detected ($n distinct violation keys shown)"; else echo "$d MISSED rc=$rc"; fi
done
git -C "$WT" checkout -q -- .
git -C /repo worktree remove --force "$WT"
