#!/bin/bash
# tools/trymut.sh <patch.diff> <ID> [tier]  : run a check against a scratch worktree with the patch applied
# (development helper; the registered procedure applies to /repo itself, see DESIGN.md)
set -u
PATCH="$1"; ID="$2"; TIER="${3:-quick}"
WT=${TRYMUT_WT:-/tmp/wt/mine}
git -C "$WT" checkout -q -- . && git -C "$WT" checkout -q --detach "$(git -C /repo rev-parse HEAD)" 2>/dev/null
git -C "$WT" apply "$PATCH" || { echo "patch does not apply"; exit 3; }
cd /verif && VERIF_EVIDENCE_DIR=${TRYMUT_EV:-/tmp/wt/evidence_scratch} VERIF_REPO="$WT" ./vcheck "$ID" --tier "$TIER" 2>/dev/null | grep -v "^  " | head -${LINES_MAX:-15}
rc=${PIPESTATUS[0]}
git -C "$WT" checkout -q -- .
echo "rc=$rc"
