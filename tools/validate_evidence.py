"""python3-vt tools/validate_evidence.py <evidence.json>... : validate against the schema."""
import json
import os
import sys

import jsonschema

HERE = os.path.dirname(os.path.abspath(__file__))
for cand in ("/root/.vp/EVIDENCE.schema.json", os.path.join(HERE, "EVIDENCE.schema.json")):
    if os.path.exists(cand):
        schema = json.load(open(cand))
        break
rc = 0
for p in sys.argv[1:]:
    try:
        jsonschema.validate(json.load(open(p)), schema)
    except Exception as e:  # noqa
        print(f"INVALID {p}: {str(e)[:500]}")
        rc = 1
sys.exit(rc)
